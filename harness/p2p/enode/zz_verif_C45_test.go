//go:build verif

package enode

// C45 (part 1) — node records are accepted only when canonical and signed.
//
// Records are assembled byte by byte with a hand-written RLP encoder (not through package enr) and pushed
// through the acceptance pipeline used for records from the network: rlp.DecodeBytes into enr.Record followed
// by enode.New(ValidSchemes, ...). The verdict is compared with a predicate that is known by construction of
// the input: keys strictly ascending, "id"="v4" and a "secp256k1" key present, signed by that key over exactly
// this content, encoded size within the limit.

import (
	"bytes"
	"crypto/ecdsa"
	"encoding/binary"
	"fmt"
	"testing"

	"github.com/ethereum/go-ethereum/crypto"
	"github.com/ethereum/go-ethereum/internal/verif/mc"
	"github.com/ethereum/go-ethereum/p2p/enr"
	"github.com/ethereum/go-ethereum/rlp"
)

// --- minimal RLP writer (Yellow Paper appendix B) ---------------------------------------------

func c45Head(base byte, n int) []byte {
	if n <= 55 {
		return []byte{base + byte(n)}
	}
	var lb []byte
	for x := n; x > 0; x >>= 8 {
		lb = append([]byte{byte(x)}, lb...)
	}
	return append([]byte{base + 55 + byte(len(lb))}, lb...)
}

func c45Str(b []byte) []byte {
	if len(b) == 1 && b[0] < 0x80 {
		return []byte{b[0]}
	}
	return append(c45Head(0x80, len(b)), b...)
}

func c45Uint(u uint64) []byte {
	var buf [8]byte
	binary.BigEndian.PutUint64(buf[:], u)
	i := 0
	for i < 8 && buf[i] == 0 {
		i++
	}
	return c45Str(buf[i:])
}

func c45List(items ...[]byte) []byte {
	var body []byte
	for _, it := range items {
		body = append(body, it...)
	}
	return append(c45Head(0xc0, len(body)), body...)
}

// --- record assembly -----------------------------------------------------------------------------

var (
	c45Key1, _ = crypto.HexToECDSA("b71c71a67e1177ad4e901695e1b4b9ee17ae16c6668d313eac2f96dbcda3f291")
	c45Key2, _ = crypto.HexToECDSA("66fb62bfbd66b9177a138c1e5cddbe4f7c30c343e94e68df8769459cb1cde628")
)

type c45Pair struct {
	k string
	v []byte // RLP-encoded value
}

// c45Value is the value the harness uses for a key; pad lengthens the value of "a".
func c45Value(k string, key *ecdsa.PrivateKey, pad int) []byte {
	switch k {
	case "a":
		return c45Str(bytes.Repeat([]byte{0xaa}, 2+pad))
	case "b":
		return c45Str([]byte{0x01})
	case "id":
		return c45Str([]byte("v4"))
	case "ip":
		return c45Str([]byte{23, 1, 2, 3})
	case "secp256k1":
		return c45Str(crypto.CompressPubkey(&key.PublicKey))
	}
	panic("c45: unknown key " + k)
}

func c45Content(seq uint64, pairs []c45Pair) []byte {
	items := [][]byte{c45Uint(seq)}
	for _, p := range pairs {
		items = append(items, c45Str([]byte(p.k)), p.v)
	}
	return c45List(items...)
}

func c45Sign(content []byte, key *ecdsa.PrivateKey) []byte {
	sig, err := crypto.Sign(crypto.Keccak256(content), key)
	if err != nil {
		panic(err)
	}
	return sig[:64]
}

func c45Record(sig []byte, seq uint64, pairs []c45Pair) []byte {
	items := [][]byte{c45Str(sig), c45Uint(seq)}
	for _, p := range pairs {
		items = append(items, c45Str([]byte(p.k)), p.v)
	}
	return c45List(items...)
}

func c45Pairs(keys []string, key *ecdsa.PrivateKey, pad int) []c45Pair {
	out := make([]c45Pair, len(keys))
	for i, k := range keys {
		out[i] = c45Pair{k, c45Value(k, key, pad)}
	}
	return out
}

// c45WellFormed: keys strictly ascending in byte order and the v4 scheme's two keys present.
func c45WellFormed(keys []string) (sorted, complete bool) {
	sorted = true
	for i := 1; i < len(keys); i++ {
		if !(keys[i-1] < keys[i]) {
			sorted = false
		}
	}
	var id, pk bool
	for _, k := range keys {
		id = id || k == "id"
		pk = pk || k == "secp256k1"
	}
	return sorted, id && pk
}

// c45Accept is the acceptance pipeline for a record received from the network.
func c45Accept(input []byte) (*Node, *enr.Record, error) {
	var rec enr.Record
	if err := rlp.DecodeBytes(input, &rec); err != nil {
		return nil, nil, fmt.Errorf("decode: %w", err)
	}
	n, err := New(ValidSchemes, &rec)
	if err != nil {
		return nil, &rec, fmt.Errorf("verify: %w", err)
	}
	return n, &rec, nil
}

// c45CheckAccepted verifies what must hold for an accepted record.
func c45CheckAccepted(input []byte, n *Node, rec *enr.Record, seq uint64, pairs []c45Pair, key *ecdsa.PrivateKey) error {
	re, err := rlp.EncodeToBytes(rec)
	if err != nil {
		return fmt.Errorf("accepted record does not re-encode: %v", err)
	}
	if !bytes.Equal(re, input) {
		return fmt.Errorf("accepted record re-encodes to %x, input was %x", re, input)
	}
	re2, err := rlp.EncodeToBytes(n.Record())
	if err != nil || !bytes.Equal(re2, input) {
		return fmt.Errorf("Node.Record() re-encodes to %x (err %v), input was %x", re2, err, input)
	}
	if rec.Seq() != seq || n.Seq() != seq {
		return fmt.Errorf("seq %d decoded as %d", seq, rec.Seq())
	}
	if rec.Size() != uint64(len(input)) {
		return fmt.Errorf("Size() = %d, input has %d bytes", rec.Size(), len(input))
	}
	pub := crypto.FromECDSAPub(&key.PublicKey)
	if want := crypto.Keccak256(pub[1:]); !bytes.Equal(n.ID().Bytes(), want) {
		return fmt.Errorf("node id %x, keccak256(pubkey) is %x", n.ID().Bytes(), want)
	}
	for _, p := range pairs {
		var raw rlp.RawValue
		if err := rec.Load(enr.WithEntry(p.k, &raw)); err != nil {
			return fmt.Errorf("key %q not loadable from accepted record: %v", p.k, err)
		}
		if !bytes.Equal(raw, p.v) {
			return fmt.Errorf("key %q loads %x, record has %x", p.k, raw, p.v)
		}
	}
	return c45Aliasing(input, n, seq, pairs)
}

// c45Intact: what must still hold for an accepted record (or node) after somebody mutated a VALUE COPY of it.
func c45Intact(what string, rec *enr.Record, input, sig []byte, seq uint64, pairs []c45Pair, id ID) error {
	if rec.Seq() != seq {
		return fmt.Errorf("%s: seq is now %d, was %d", what, rec.Seq(), seq)
	}
	if !bytes.Equal(rec.Signature(), sig) {
		return fmt.Errorf("%s: signature changed", what)
	}
	for _, p := range pairs {
		var raw rlp.RawValue
		if err := rec.Load(enr.WithEntry(p.k, &raw)); err != nil || !bytes.Equal(raw, p.v) {
			return fmt.Errorf("%s: key %q now loads %x (err %v), the accepted record has %x", what, p.k, raw, err, p.v)
		}
	}
	if err := rec.VerifySignature(ValidSchemes); err != nil {
		return fmt.Errorf("%s: signature of the accepted record no longer verifies: %v", what, err)
	}
	re, err := rlp.EncodeToBytes(rec)
	if err != nil || !bytes.Equal(re, input) {
		return fmt.Errorf("%s: re-encodes to %x (err %v), accepted bytes were %x", what, re, err, input)
	}
	n, err := New(ValidSchemes, rec)
	if err != nil || n.ID() != id {
		return fmt.Errorf("%s: enode.New on the accepted record now fails: %v", what, err)
	}
	return nil
}

// c45Aliasing: enr.Record is passed around by value (Node.Record(), SignV4, newNodeWithID). Mutating a value
// copy must never reach the accepted original, and mutating the original must never reach an earlier copy.
func c45Aliasing(input []byte, n *Node, seq uint64, pairs []c45Pair) error {
	var first enr.Record
	if err := rlp.DecodeBytes(input, &first); err != nil {
		return err
	}
	sig := first.Signature()
	other := rlp.RawValue(c45Str([]byte{0xee, 0xee, 0xee}))
	type mut struct {
		name string
		fn   func(r *enr.Record)
	}
	var muts []mut
	for _, p := range pairs {
		k := p.k
		muts = append(muts, mut{"Set(existing " + k + ")", func(r *enr.Record) { r.Set(enr.WithEntry(k, other)) }})
	}
	for _, k := range []string{"0", "c", "zz"} {
		muts = append(muts, mut{"Set(new " + k + ")", func(r *enr.Record) { r.Set(enr.WithEntry(k, other)) }})
	}
	muts = append(muts,
		mut{"SetSeq", func(r *enr.Record) { r.SetSeq(seq + 1) }},
		mut{"SetSig(nil)", func(r *enr.Record) { r.SetSig(nil, nil) }},
		mut{"all", func(r *enr.Record) {
			for _, p := range pairs {
				r.Set(enr.WithEntry(p.k, other))
			}
			r.Set(enr.WithEntry("c", other))
			r.SetSeq(seq + 9)
		}})
	for _, m := range muts {
		// (1) copy of a decoded record mutated, original checked
		var orig enr.Record
		if err := rlp.DecodeBytes(input, &orig); err != nil {
			return err
		}
		cp := orig
		m.fn(&cp)
		if err := c45Intact("decoded record after "+m.name+" on a value copy", &orig, input, sig, seq, pairs, n.ID()); err != nil {
			return err
		}
		// (2) original mutated, earlier copy checked
		var orig2 enr.Record
		if err := rlp.DecodeBytes(input, &orig2); err != nil {
			return err
		}
		keep := orig2
		m.fn(&orig2)
		if err := c45Intact("value copy taken before "+m.name+" on the original", &keep, input, sig, seq, pairs, n.ID()); err != nil {
			return err
		}
		// (3) the record handed out by an accepted node mutated, the node checked
		nn, err := New(ValidSchemes, &orig)
		if err != nil {
			return err
		}
		m.fn(nn.Record())
		held := nn.Record()
		m.fn(held)
		if nn.Seq() != seq {
			return fmt.Errorf("node after %s on Node.Record(): seq %d, was %d", m.name, nn.Seq(), seq)
		}
		if err := c45Intact("accepted node after "+m.name+" on Node.Record()", nn.Record(), input, sig, seq, pairs, n.ID()); err != nil {
			return err
		}
		for _, p := range pairs {
			var raw rlp.RawValue
			if err := nn.Load(enr.WithEntry(p.k, &raw)); err != nil || !bytes.Equal(raw, p.v) {
				return fmt.Errorf("accepted node after %s on Node.Record(): Load(%q) = %x (err %v), accepted %x", m.name, p.k, raw, err, p.v)
			}
		}
		// the record the node was built from is the caller's: mutating it afterwards must not reach the node either
		m.fn(&orig)
		if err := c45Intact("accepted node after "+m.name+" on the record it was created from", nn.Record(), input, sig, seq, pairs, n.ID()); err != nil {
			return err
		}
	}
	return nil
}

// c45ViaAPI builds the same record through package enr and SignV4 (an independent encoder path).
func c45ViaAPI(seq uint64, pairs []c45Pair, key *ecdsa.PrivateKey) ([]byte, error) {
	var r enr.Record
	for _, p := range pairs {
		r.Set(enr.WithEntry(p.k, rlp.RawValue(p.v)))
	}
	r.SetSeq(seq)
	if err := SignV4(&r, key); err != nil {
		return nil, err
	}
	return rlp.EncodeToBytes(&r)
}

var c45Alphabet = []string{"a", "b", "id", "ip", "secp256k1"}

func TestVerif_C45_enr(t *testing.T) {
	mc.Run(t, "C45", func(r *mc.R) {
		maxLen := mc.Pick(r, 5, 6)
		r.Rule("hand-assembled RLP records: (keys) every sequence of 0..L keys over {a,b,id,ip,secp256k1} (all orders, with duplicates) x seq{0,1,2^64-1}, correctly signed over exactly that content; " +
			"(sig) every well-formed key set x seq x signature{valid, other key, 63/65/0 bytes, zero, over another seq, last bit flipped}; (size) total size SizeLimit-3..SizeLimit+3 by padding one value; " +
			"(edit) every single-byte substitution (3 masks), deletion, duplication and zero-insertion at every offset of 4 valid records. distinct = distinct input byte strings")
		r.Bound("max_pairs", maxLen)
		r.Bound("SizeLimit", enr.SizeLimit)
		r.Assume("reference verdict is known by construction of the input (sorted+unique keys, v4 keys present, signature made by the harness over the same content with the same key, size); " +
			"secp256k1/keccak primitives of package crypto are trusted; RFC 6979 deterministic signing lets the enr/SignV4-built record be compared byte for byte")
		seqs := []uint64{0, 1, ^uint64(0)}

		// ---- (keys) all key sequences
		var seqsOfKeys [][]string
		var gen func(cur []string)
		gen = func(cur []string) {
			seqsOfKeys = append(seqsOfKeys, append([]string{}, cur...))
			if len(cur) == maxLen {
				return
			}
			for _, k := range c45Alphabet {
				gen(append(cur, k))
			}
		}
		gen(nil)
		r.Parallel(len(seqsOfKeys), func(i int) {
			keys := seqsOfKeys[i]
			sorted, complete := c45WellFormed(keys)
			for si, seq := range seqs {
				if len(keys) == maxLen && si != 1 && r.Quick() {
					continue // longest sequences with seq=1 only in the quick tier
				}
				pairs := c45Pairs(keys, c45Key1, 0)
				input := c45Record(c45Sign(c45Content(seq, pairs), c45Key1), seq, pairs)
				c := map[string]any{"grid": "keys", "keys": keys, "seq": seq}
				r.Case(c, func() error {
					n, rec, err := c45Accept(input)
					want := sorted && complete
					if (err == nil) != want {
						return fmt.Errorf("record %x: accepted=%v (err %v); keys sorted+unique=%v, v4 keys present=%v, signature valid, size %d", input, err == nil, err, sorted, complete, len(input))
					}
					if err != nil {
						// the decoder alone must already refuse unsorted / duplicate keys
						var rec2 enr.Record
						if derr := rlp.DecodeBytes(input, &rec2); (derr == nil) != sorted {
							return fmt.Errorf("record %x: enr decoder accepted=%v but keys sorted+unique=%v", input, derr == nil, sorted)
						}
						r.Outcome("keys:rejected")
						return nil
					}
					r.Outcome("keys:accepted")
					if err := c45CheckAccepted(input, n, rec, seq, pairs, c45Key1); err != nil {
						return err
					}
					api, err := c45ViaAPI(seq, pairs, c45Key1)
					if err != nil || !bytes.Equal(api, input) {
						return fmt.Errorf("record built through enr.Record/SignV4 is %x (err %v), hand-assembled canonical form is %x", api, err, input)
					}
					return nil
				})
				r.DistinctHash(mc.Hash64(string(input)))
				if i%611 == 0 && si == 1 {
					r.Sample(c)
				}
			}
		})

		// ---- (sig) signature variants on every well-formed key set
		var sets [][]string
		for m := 0; m < 8; m++ {
			var ks []string
			for _, k := range c45Alphabet {
				switch k {
				case "a":
					if m&1 == 0 {
						continue
					}
				case "b":
					if m&2 == 0 {
						continue
					}
				case "ip":
					if m&4 == 0 {
						continue
					}
				}
				ks = append(ks, k)
			}
			sets = append(sets, ks)
		}
		sigModes := []string{"valid", "other-key", "claims-other-key", "63-bytes", "65-bytes", "empty", "zero", "other-seq", "bit-flipped"}
		for _, keys := range sets {
			for _, seq := range seqs {
				for _, mode := range sigModes {
					pairs := c45Pairs(keys, c45Key1, 0)
					good := c45Sign(c45Content(seq, pairs), c45Key1)
					var sig []byte
					switch mode {
					case "valid":
						sig = good
					case "other-key": // signed by key 2, record names key 1
						sig = c45Sign(c45Content(seq, pairs), c45Key2)
					case "claims-other-key": // signed by key 1 over the content that names key 1, but the record names key 2
						pairs = c45Pairs(keys, c45Key2, 0)
						sig = good
					case "63-bytes":
						sig = good[:63]
					case "65-bytes":
						sig = append(append([]byte{}, good...), 0)
					case "empty":
						sig = nil
					case "zero":
						sig = make([]byte, 64)
					case "other-seq":
						sig = c45Sign(c45Content(seq+1, pairs), c45Key1)
					case "bit-flipped":
						sig = append([]byte{}, good...)
						sig[63] ^= 1
					}
					input := c45Record(sig, seq, pairs)
					c := map[string]any{"grid": "sig", "keys": keys, "seq": seq, "sig": mode}
					r.Case(c, func() error {
						n, rec, err := c45Accept(input)
						if (err == nil) != (mode == "valid") {
							return fmt.Errorf("record %x with signature variant %q: accepted=%v (err %v)", input, mode, err == nil, err)
						}
						if err == nil {
							r.Outcome("sig:accepted")
							return c45CheckAccepted(input, n, rec, seq, pairs, c45Key1)
						}
						r.Outcome("sig:rejected")
						return nil
					})
					r.DistinctHash(mc.Hash64(string(input)))
				}
			}
		}
		r.Sample(map[string]any{"grid": "sig", "keys": sets[7], "seq": 1, "sig": "other-seq"})

		// ---- (size) boundary of the size limit
		for _, keys := range sets {
			hasA := false
			for _, k := range keys {
				hasA = hasA || k == "a"
			}
			if !hasA {
				continue
			}
			for _, seq := range seqs {
				for target := enr.SizeLimit - 3; target <= enr.SizeLimit+3; target++ {
					// find the padding of "a" that gives exactly the target size (may not exist at an RLP header step)
					var input []byte
					var pairs []c45Pair
					for pad := 0; pad < enr.SizeLimit+8; pad++ {
						pairs = c45Pairs(keys, c45Key1, pad)
						cand := c45Record(c45Sign(c45Content(seq, pairs), c45Key1), seq, pairs)
						if len(cand) == target {
							input = cand
							break
						}
						if len(cand) > target {
							break
						}
					}
					if input == nil {
						r.Outcome("size:unreachable")
						continue
					}
					c := map[string]any{"grid": "size", "keys": keys, "seq": seq, "size": target}
					r.Case(c, func() error {
						n, rec, err := c45Accept(input)
						if (err == nil) != (len(input) <= enr.SizeLimit) {
							return fmt.Errorf("valid record of %d bytes: accepted=%v (err %v), limit is %d", len(input), err == nil, err, enr.SizeLimit)
						}
						if err == nil {
							r.Outcome("size:accepted")
							if err := c45CheckAccepted(input, n, rec, seq, pairs, c45Key1); err != nil {
								return err
							}
							api, err := c45ViaAPI(seq, pairs, c45Key1)
							if err != nil || !bytes.Equal(api, input) {
								return fmt.Errorf("record of %d bytes built through enr.Record/SignV4 is %x (err %v), want %x", len(input), api, err, input)
							}
							return nil
						}
						// too big: the signing API must refuse to produce it as well
						if _, err := c45ViaAPI(seq, pairs, c45Key1); err == nil {
							return fmt.Errorf("SignV4 produced a record of %d bytes, above the limit %d", len(input), enr.SizeLimit)
						}
						r.Outcome("size:rejected")
						return nil
					})
					r.DistinctHash(mc.Hash64(string(input)))
					if target == enr.SizeLimit+1 && seq == 1 {
						r.Sample(c)
					}
				}
			}
		}

		// ---- (edit) every single edit of valid records
		type base struct {
			keys []string
			seq  uint64
		}
		bases := []base{{sets[0], 1}, {sets[4], 0}, {sets[7], 1}, {sets[7], ^uint64(0)}}
		type edit struct {
			b    int
			off  int
			kind string
		}
		var edits []edit
		var inputs [][]byte
		for bi, b := range bases {
			pairs := c45Pairs(b.keys, c45Key1, 0)
			in := c45Record(c45Sign(c45Content(b.seq, pairs), c45Key1), b.seq, pairs)
			inputs = append(inputs, in)
			if _, _, err := c45Accept(in); err != nil {
				r.Violation(fmt.Sprintf("edit-base-%d", bi), fmt.Sprintf("unmodified base record %x rejected: %v", in, err), nil)
				return
			}
			for off := range in {
				for _, k := range []string{"xor01", "xor80", "xorff", "delete", "duplicate", "insert00"} {
					edits = append(edits, edit{bi, off, k})
				}
			}
		}
		r.Parallel(len(edits), func(i int) {
			e := edits[i]
			in := inputs[e.b]
			var mut []byte
			switch e.kind {
			case "xor01", "xor80", "xorff":
				mut = append([]byte{}, in...)
				mut[e.off] ^= map[string]byte{"xor01": 0x01, "xor80": 0x80, "xorff": 0xff}[e.kind]
			case "delete":
				mut = append(append([]byte{}, in[:e.off]...), in[e.off+1:]...)
			case "duplicate":
				mut = append(append(append([]byte{}, in[:e.off+1]...), in[e.off]), in[e.off+1:]...)
			case "insert00":
				mut = append(append(append([]byte{}, in[:e.off]...), 0), in[e.off:]...)
			}
			if bytes.Equal(mut, in) {
				return
			}
			c := map[string]any{"grid": "edit", "base": e.b, "offset": e.off, "edit": e.kind}
			r.Case(c, func() error {
				_, _, err := c45Accept(mut)
				if err == nil {
					return fmt.Errorf("record %x (valid record %d with %s at offset %d) was accepted", mut, e.b, e.kind, e.off)
				}
				if bytes.HasPrefix([]byte(err.Error()), []byte("decode")) {
					r.Outcome("edit:rejected-by-decoder")
				} else {
					r.Outcome("edit:rejected-by-signature-check")
				}
				return nil
			})
			r.DistinctHash(mc.Hash64(string(mut)))
			if i%997 == 0 {
				r.Sample(c)
			}
		})
	})
}
