//go:build verif

package rlpx

// C44 — RLPx delivers authenticated messages intact and in order.
//
// Two real rlpx.Conn talk over an in-memory duplex that is a deterministic coroutine scheduler: exactly one
// party runs at a time, a Read on an empty buffer hands control to the peer, and when both parties wait on empty
// buffers (or the peer has returned) the Read reports io.EOF. No wall clock, no sleeping, no free-running
// goroutine: every session, including tampered ones that can never complete, terminates deterministically.
// The duplex decides how many bytes each Read returns and whether a Write becomes visible in two parts
// (fragmentation), and can flip one byte of either direction's stream (tampering).
//
// Parts:
//   handshake+frames sessions with real key agreement (key pairs x compression x who talks first x message
//   sets; fragmentation scripts; every byte of both handshake packets and of the first frames flipped;
//   handshake packets carrying invalid curve points);
//   frame-layer sessions with injected fixed secrets (cheap and bit-for-bit reproducible): every uniform
//   fragment size, all single and double fragmentation deviations over every call index, every byte x 3 masks
//   of the whole wire transcript.

import (
	"bytes"
	"crypto/aes"
	"crypto/cipher"
	"crypto/ecdsa"
	"crypto/hmac"
	"crypto/sha256"
	"encoding/binary"
	"errors"
	"fmt"
	"io"
	"math/big"
	"net"
	"runtime/debug"
	"sync"
	"testing"
	"time"

	"github.com/ethereum/go-ethereum/crypto"
	"github.com/ethereum/go-ethereum/crypto/ecies"
	"github.com/ethereum/go-ethereum/crypto/keccak"
	"github.com/ethereum/go-ethereum/internal/verif/mc"
	"github.com/ethereum/go-ethereum/rlp"
	"github.com/golang/snappy"
)

// ---------------------------------------------------------------------------------------------------
// deterministic duplex

// c44Frag decides fragmentation: readN(dir, call, want, avail) = number of bytes the call-th Read of the stream
// flowing in direction dir returns (clamped to 1..min(want, avail)); splitAt(dir, call, n) = where the call-th
// Write of n bytes is cut in two (0 = not split).
type c44Frag struct {
	readN   func(dir, call, want, avail int) int
	splitAt func(dir, call, n int) int
}

type c44Tamper struct {
	dir  int // direction: 0 = party0 -> party1
	off  int // byte offset in that direction's stream
	mask byte
}

type c44Duplex struct {
	buf     [2][]byte // buf[p] = bytes waiting to be read by party p
	turn    [2]chan struct{}
	waiting [2]bool // party blocked in Read on an empty buffer
	done    [2]bool
	frag    c44Frag
	tamper  *c44Tamper
	// bookkeeping (direction d = stream written by party d)
	written [2]int   // bytes written so far
	writes  [2][]int // length of every Write call
	reads   [2]int   // number of Read calls served on the stream of direction d
	nwrites [2]int
	hit     bool // the tampered byte was actually transmitted
	rewrite func(dir, call int, data []byte) bool
}

func c44NewDuplex(frag c44Frag, t *c44Tamper) *c44Duplex {
	d := &c44Duplex{frag: frag, tamper: t}
	d.turn[0], d.turn[1] = make(chan struct{}, 1), make(chan struct{}, 1)
	return d
}

// yield hands control to the other party and waits until control comes back.
func (d *c44Duplex) yield(me int) {
	d.turn[1-me] <- struct{}{}
	<-d.turn[me]
}

type c44End struct {
	d  *c44Duplex
	me int
}

func (e c44End) Read(p []byte) (int, error) {
	d, me := e.d, e.me
	if len(p) == 0 {
		return 0, nil
	}
	for len(d.buf[me]) == 0 {
		other := 1 - me
		if d.done[other] || (d.waiting[other] && len(d.buf[other]) == 0) {
			return 0, io.EOF // nobody can ever produce the data
		}
		d.waiting[me] = true
		d.yield(me)
		d.waiting[me] = false
	}
	dir := 1 - me
	call := d.reads[dir]
	d.reads[dir]++
	want, avail := len(p), len(d.buf[me])
	n := min(want, avail)
	if d.frag.readN != nil {
		if k := d.frag.readN(dir, call, want, avail); k >= 1 && k < n {
			n = k
		}
	}
	copy(p, d.buf[me][:n])
	d.buf[me] = d.buf[me][n:]
	return n, nil
}

func (e c44End) Write(p []byte) (int, error) {
	d, me := e.d, e.me
	call := d.nwrites[me]
	d.nwrites[me]++
	d.writes[me] = append(d.writes[me], len(p))
	data := bytes.Clone(p)
	if d.rewrite != nil && d.rewrite(me, call, data) {
		d.hit = true
	}
	if t := d.tamper; t != nil && t.dir == me && t.off >= d.written[me] && t.off < d.written[me]+len(p) {
		data[t.off-d.written[me]] ^= t.mask
		d.hit = true
	}
	d.written[me] += len(p)
	cut := 0
	if d.frag.splitAt != nil {
		cut = d.frag.splitAt(me, call, len(p))
	}
	if cut > 0 && cut < len(p) && !d.done[1-me] {
		d.buf[1-me] = append(d.buf[1-me], data[:cut]...)
		d.yield(me) // the peer runs with only the first part visible
		d.buf[1-me] = append(d.buf[1-me], data[cut:]...)
	} else {
		d.buf[1-me] = append(d.buf[1-me], data...)
	}
	return len(p), nil
}

func (e c44End) Close() error                     { return nil }
func (e c44End) LocalAddr() net.Addr              { return c44Addr{} }
func (e c44End) RemoteAddr() net.Addr             { return c44Addr{} }
func (e c44End) SetDeadline(time.Time) error      { return nil }
func (e c44End) SetReadDeadline(time.Time) error  { return nil }
func (e c44End) SetWriteDeadline(time.Time) error { return nil }

type c44Addr struct{}

func (c44Addr) Network() string { return "mem" }
func (c44Addr) String() string  { return "mem" }

// run executes the two party bodies as coroutines (party 0 starts) and returns when both have returned.
func (d *c44Duplex) run(body0, body1 func(conn net.Conn)) {
	var wg sync.WaitGroup
	for p, body := range []func(net.Conn){body0, body1} {
		wg.Add(1)
		go func() {
			defer wg.Done()
			<-d.turn[p]
			defer func() {
				d.done[p] = true
				if !d.done[1-p] {
					d.turn[1-p] <- struct{}{}
				}
			}()
			body(c44End{d, p})
		}()
	}
	d.turn[0] <- struct{}{}
	wg.Wait()
}

// ---------------------------------------------------------------------------------------------------
// sessions

type c44Msg struct {
	code uint64
	data []byte
}

func c44Payload(size int, compressible bool) []byte {
	out := make([]byte, size)
	if compressible {
		for i := range out {
			out[i] = byte(i / 64)
		}
		return out
	}
	var block []byte
	for i := 0; i < size; i += 32 {
		block = crypto.Keccak256(block, []byte{byte(i), byte(i >> 8), byte(i >> 16)})
		copy(out[i:], block)
	}
	return out
}

type c44PartyResult struct {
	hsErr   error
	remote  *ecdsa.PublicKey
	got     []c44Msg
	wire    []int
	readErr error // first Read error (nil if all expected messages were read)
	wsizes  []uint32
	wErr    error
	panic   string // the code under test panicked in this party
}

type c44Session struct {
	keys        [2]*ecdsa.PrivateKey // nil => frame-layer session with injected secrets
	snappy      bool
	send        [2][]c44Msg // messages written by party 0 / party 1
	secondFirst bool        // party 1 writes before it reads (party 0 then reads first)
	frag        c44Frag
	tamper      *c44Tamper
	extraRead   bool // after the expected messages, read once more (must not deliver anything)
	rewrite     func(dir, call int, data []byte) bool
}

func c44FixedSecrets(initiator bool) Secrets {
	s := Secrets{AES: crypto.Keccak256([]byte("c44 aes")), MAC: crypto.Keccak256([]byte("c44 mac"))}
	m1, m2 := keccak.NewLegacyKeccak256(), keccak.NewLegacyKeccak256()
	m1.Write([]byte("c44 mac seed initiator->recipient"))
	m2.Write([]byte("c44 mac seed recipient->initiator"))
	if initiator {
		s.EgressMAC, s.IngressMAC = m1, m2
	} else {
		s.EgressMAC, s.IngressMAC = m2, m1
	}
	return s
}

func (cfg *c44Session) run() (res [2]c44PartyResult, d *c44Duplex) {
	d = c44NewDuplex(cfg.frag, cfg.tamper)
	d.rewrite = cfg.rewrite
	party := func(p int) func(net.Conn) {
		return func(nc net.Conn) {
			r := &res[p]
			defer func() {
				if x := recover(); x != nil {
					r.panic = fmt.Sprintf("%v\n%s", x, debug.Stack())
				}
			}()
			var conn *Conn
			if cfg.keys[0] != nil {
				if p == 0 {
					conn = NewConn(nc, &cfg.keys[1].PublicKey)
				} else {
					conn = NewConn(nc, nil)
				}
				r.remote, r.hsErr = conn.Handshake(cfg.keys[p])
				if r.hsErr != nil {
					return
				}
			} else {
				conn = NewConn(nc, nil)
				conn.InitWithSecrets(c44FixedSecrets(p == 0))
			}
			conn.SetSnappy(cfg.snappy)
			write := func() {
				for _, m := range cfg.send[p] {
					n, err := conn.Write(m.code, m.data)
					if err != nil {
						r.wErr = err
						return
					}
					r.wsizes = append(r.wsizes, n)
				}
			}
			read := func() {
				n := len(cfg.send[1-p])
				if cfg.extraRead {
					n++
				}
				for i := 0; i < n; i++ {
					code, data, wire, err := conn.Read()
					if err != nil {
						r.readErr = err
						return
					}
					r.got = append(r.got, c44Msg{code, bytes.Clone(data)})
					r.wire = append(r.wire, wire)
				}
			}
			writesFirst := (p == 0) != cfg.secondFirst
			if writesFirst {
				write()
				read()
			} else {
				read()
				write()
			}
		}
	}
	d.run(party(0), party(1))
	return res, d
}

func c44SameMsgs(got, want []c44Msg) error {
	if len(got) != len(want) {
		return fmt.Errorf("%d messages delivered, %d sent", len(got), len(want))
	}
	for i := range want {
		if got[i].code != want[i].code || !bytes.Equal(got[i].data, want[i].data) {
			return fmt.Errorf("message %d delivered as code %d / %d bytes (%x..), sent code %d / %d bytes", i, got[i].code, len(got[i].data), head(got[i].data), want[i].code, len(want[i].data))
		}
	}
	return nil
}

func head(b []byte) []byte {
	if len(b) > 8 {
		return b[:8]
	}
	return b
}

// checkClean: oracle for an untampered session.
func (cfg *c44Session) checkClean(res [2]c44PartyResult) error {
	for p := 0; p < 2; p++ {
		r := res[p]
		if r.panic != "" {
			return fmt.Errorf("party %d panicked: %s", p, r.panic)
		}
		if cfg.keys[0] != nil {
			if r.hsErr != nil {
				return fmt.Errorf("party %d: handshake failed: %v", p, r.hsErr)
			}
			want := &cfg.keys[1-p].PublicKey
			if r.remote == nil || r.remote.X.Cmp(want.X) != 0 || r.remote.Y.Cmp(want.Y) != 0 {
				return fmt.Errorf("party %d learned a wrong remote public key", p)
			}
		}
		if r.wErr != nil {
			return fmt.Errorf("party %d: Write failed: %v", p, r.wErr)
		}
		want := cfg.send[1-p]
		if cfg.extraRead {
			if r.readErr == nil {
				return fmt.Errorf("party %d: a Read beyond the last sent message delivered code %d", p, r.got[len(r.got)-1].code)
			}
		} else if r.readErr != nil {
			return fmt.Errorf("party %d: Read failed after %d of %d messages: %v", p, len(r.got), len(want), r.readErr)
		}
		if err := c44SameMsgs(r.got, want); err != nil {
			return fmt.Errorf("party %d: %v", p, err)
		}
		for i := range r.got {
			if int(res[1-p].wsizes[i]) != r.wire[i] {
				return fmt.Errorf("party %d: message %d wire size %d, writer reported %d", p, i, r.wire[i], res[1-p].wsizes[i])
			}
			if !cfg.snappy && r.wire[i] != len(want[i].data) {
				return fmt.Errorf("party %d: message %d wire size %d without compression, payload is %d", p, i, r.wire[i], len(want[i].data))
			}
		}
	}
	return nil
}

// checkTampered: oracle for a session in which one byte of direction t.dir was flipped at offset t.off.
// The receiver of that stream must deliver exactly the messages whose frames ended before the flipped byte and
// report an error for the rest (a failed handshake if the byte is inside the handshake packet); the other party
// may only ever see a prefix of what was sent to it.
func (cfg *c44Session) checkTampered(res [2]c44PartyResult, d *c44Duplex) (string, error) {
	t := cfg.tamper
	for p := 0; p < 2; p++ {
		if res[p].panic != "" {
			return "panic", fmt.Errorf("party %d panicked: %s", p, res[p].panic)
		}
	}
	if !d.hit {
		return "beyond-stream", cfg.checkClean(res) // offset past the end of this run's stream: a clean session
	}
	recv, sender := 1-t.dir, t.dir
	r := res[recv]
	// locate the write that contains the byte
	idx, start := -1, 0
	for i, n := range d.writes[sender] {
		if t.off < start+n {
			idx = i
			break
		}
		start += n
	}
	if idx < 0 {
		return "", fmt.Errorf("harness: tampered byte not inside any write")
	}
	hsWrites := 0
	if cfg.keys[0] != nil {
		hsWrites = 1
	}
	class := "frame"
	if idx < hsWrites {
		class = "handshake"
		if r.hsErr == nil {
			return class, fmt.Errorf("party %d accepted a handshake packet with byte %d xor %#x (derived secrets from it)", recv, t.off, t.mask)
		}
		if len(r.got) != 0 {
			return class, fmt.Errorf("party %d delivered messages after a corrupted handshake", recv)
		}
	} else {
		if cfg.keys[0] != nil && r.hsErr != nil {
			return class, fmt.Errorf("party %d: handshake failed although only frame bytes were modified: %v", recv, r.hsErr)
		}
		intact := idx - hsWrites // frames completely before the flipped byte
		if r.readErr == nil {
			return class, fmt.Errorf("party %d read all %d messages although byte %d (frame %d) was flipped with %#x", recv, len(r.got), t.off, intact, t.mask)
		}
		if len(r.got) != intact {
			return class, fmt.Errorf("party %d delivered %d messages, %d frames precede the flipped byte (frame %d)", recv, len(r.got), intact, intact)
		}
		if err := c44SameMsgs(r.got, cfg.send[sender][:intact]); err != nil {
			return class, fmt.Errorf("party %d: %v", recv, err)
		}
	}
	// the sender of the corrupted stream must not have been fed anything it was not sent
	s := res[sender]
	want := cfg.send[recv]
	if len(s.got) > len(want) {
		return class, fmt.Errorf("party %d delivered more messages than were sent", sender)
	}
	if err := c44SameMsgs(s.got, want[:len(s.got)]); err != nil {
		return class, fmt.Errorf("party %d: %v", sender, err)
	}
	return class, nil
}

var c44Keys = func() []*ecdsa.PrivateKey {
	var ks []*ecdsa.PrivateKey
	for i := 0; i < 3; i++ {
		k, err := crypto.ToECDSA(crypto.Keccak256([]byte{'C', '4', '4', byte(i)}))
		if err != nil {
			panic(err)
		}
		ks = append(ks, k)
	}
	return ks
}()

func c44MsgSet(sizes []int, codes []uint64, compressible bool) []c44Msg {
	var out []c44Msg
	for i, s := range sizes {
		out = append(out, c44Msg{codes[i%len(codes)], c44Payload(s, compressible)})
	}
	return out
}

// ---------------------------------------------------------------------------------------------------

func TestVerif_C44(t *testing.T) {
	mc.Run(t, "C44", func(r *mc.R) {
		r.Rule("sessions over a deterministic in-memory duplex. (hs) real handshake: 3x3 key pairs x compression{off,on} x who-writes-first x message sets (codes {0,1,2^32,2^64-1}, sizes {0,1,15,16,17,255,65536,max}), " +
			"uniform fragment sizes and single read/write deviations at every call index, every byte (masks) of both handshake packets and following frames flipped, invalid curve points in auth / auth-ack / ECIES envelope; " +
			"(frames) injected secrets: every uniform fragment size 1..wire length, all single and double deviations {1 byte, n-1 bytes, write split at 1/mid/n-1} over every call index, every wire byte x {0x01,0x80,0xff}. " +
			"distinct = distinct (session, fragmentation, tamper) descriptors")
		r.Assume("oracle: sent vs delivered message lists, remote key equality, and for tampering the frame boundaries recorded by the duplex; ECIES/secp256k1/keccak/snappy primitives are trusted")
		r.Assume("handshake nonces, ephemeral keys and EIP-8 padding come from crypto/rand / math/rand inside the code under test: handshake bytes differ between runs, the verdict does not depend on them; frame-layer sessions are bit-for-bit reproducible")

		codes := []uint64{0, 1, 1 << 32, ^uint64(0)}

		// ---------------- (frames) injected secrets
		frameSets := map[string][]int{"small": {0, 1, 15}, "block": {16, 17, 31}, "mixed": {255, 0, 1000}}
		for _, name := range []string{"small", "block", "mixed"} {
			sizes := frameSets[name]
			for _, snappy := range []bool{false, true} {
				base := &c44Session{snappy: snappy, send: [2][]c44Msg{c44MsgSet(sizes, codes, true), c44MsgSet(sizes[:1], codes[1:], false)}}
				res, d0 := base.run()
				r.Case(map[string]any{"part": "frames", "set": name, "snappy": snappy, "frag": "whole"}, func() error { return base.checkClean(res) })
				wireLen := d0.written[0]
				nReads := d0.reads[0]
				r.Bound(fmt.Sprintf("frames.%s.snappy=%v.wire_bytes", name, snappy), wireLen)

				// every uniform fragment size
				r.Parallel(wireLen, func(i int) {
					chunk := i + 1
					cfg := *base
					cfg.frag = c44Frag{readN: func(dir, call, want, avail int) int { return chunk }}
					c := map[string]any{"part": "frames", "set": name, "snappy": snappy, "frag": "uniform", "chunk": chunk}
					r.Case(c, func() error { res, _ := cfg.run(); return cfg.checkClean(res) })
					r.DistinctHash(mc.Hash64(fmt.Sprint("fu", name, snappy, chunk)))
					r.Outcome("frames:fragmented-ok")
				})
				// extra read past the end never delivers
				{
					cfg := *base
					cfg.extraRead = true
					r.Case(map[string]any{"part": "frames", "set": name, "snappy": snappy, "frag": "extra-read"}, func() error { res, _ := cfg.run(); return cfg.checkClean(res) })
				}

				// single and double deviations over every call index of direction 0 (reads) and every write
				type dev struct {
					call int
					kind int // 0: read returns 1 byte, 1: read returns avail-1, 2: write split at 1, 3: at mid, 4: at n-1
				}
				maxCalls := nReads + 6 // deviations add calls; indexes beyond the end are no-ops
				var devs []dev
				for c := 0; c < maxCalls; c++ {
					devs = append(devs, dev{c, 0}, dev{c, 1})
				}
				for w := 0; w < len(sizes); w++ {
					devs = append(devs, dev{w, 2}, dev{w, 3}, dev{w, 4})
				}
				apply := func(ds []dev) c44Frag {
					return c44Frag{
						readN: func(dir, call, want, avail int) int {
							if dir != 0 {
								return 0
							}
							for _, x := range ds {
								if x.call == call && x.kind == 0 {
									return 1
								}
								if x.call == call && x.kind == 1 {
									return min(want, avail) - 1
								}
							}
							return 0
						},
						splitAt: func(dir, call, n int) int {
							if dir != 0 {
								return 0
							}
							for _, x := range ds {
								if x.call == call && x.kind >= 2 {
									return []int{1, n / 2, n - 1}[x.kind-2]
								}
							}
							return 0
						},
					}
				}
				type pair struct{ a, b int }
				var pairs []pair
				for i := range devs {
					pairs = append(pairs, pair{i, -1})
					for j := i + 1; j < len(devs); j++ {
						if devs[i].call == devs[j].call && (devs[i].kind < 2) == (devs[j].kind < 2) {
							continue // two deviations of the same call
						}
						pairs = append(pairs, pair{i, j})
					}
				}
				r.Parallel(len(pairs), func(i int) {
					p := pairs[i]
					ds := []dev{devs[p.a]}
					if p.b >= 0 {
						ds = append(ds, devs[p.b])
					}
					cfg := *base
					cfg.frag = apply(ds)
					c := map[string]any{"part": "frames", "set": name, "snappy": snappy, "frag": "deviations", "devs": fmt.Sprint(ds)}
					r.Case(c, func() error { res, _ := cfg.run(); return cfg.checkClean(res) })
					r.DistinctHash(mc.Hash64(fmt.Sprint("fd", name, snappy, ds)))
					r.Outcome("frames:fragmented-ok")
					if i%499 == 0 {
						r.Sample(c)
					}
				})

				// every byte of the stream 0 -> 1
				r.Parallel(wireLen, func(off int) {
					for _, m := range []byte{0x01, 0x80, 0xff} {
						cfg := *base
						cfg.tamper = &c44Tamper{dir: 0, off: off, mask: m}
						c := map[string]any{"part": "frames", "set": name, "snappy": snappy, "tamper_offset": off, "mask": int(m)}
						r.Case(c, func() error {
							res, d := cfg.run()
							class, err := cfg.checkTampered(res, d)
							r.Outcome("frames:tamper-" + class + "-rejected")
							return err
						})
						r.DistinctHash(mc.Hash64(fmt.Sprint("ft", name, snappy, off, m)))
					}
					if off%211 == 0 {
						r.Sample(map[string]any{"part": "frames", "set": name, "snappy": snappy, "tamper_offset": off, "mask": 128})
					}
				})
			}
		}

		// large frames: boundaries of the size limit and structured tamper positions
		{
			big := maxUint24 - 9 // code 2^64-1 takes 9 bytes: frame size exactly maxUint24
			cfg := &c44Session{send: [2][]c44Msg{{{^uint64(0), c44Payload(big, false)}, {0, c44Payload(65536, false)}}, nil}}
			r.Case(map[string]any{"part": "frames", "set": "max", "size": big}, func() error {
				res, _ := cfg.run()
				return cfg.checkClean(res)
			})
			r.Case(map[string]any{"part": "frames", "set": "max+1"}, func() error {
				c := NewConn(c44End{c44NewDuplex(c44Frag{}, nil), 0}, nil)
				c.InitWithSecrets(c44FixedSecrets(true))
				if _, err := c.Write(^uint64(0), make([]byte, big+1)); err == nil {
					return fmt.Errorf("frame of size maxUint24+1 was written")
				}
				if _, err := c.Write(0, make([]byte, maxUint24+1)); err == nil {
					return fmt.Errorf("payload of maxUint24+1 bytes was written")
				}
				return nil
			})
			mid := &c44Session{send: [2][]c44Msg{{{1, c44Payload(65536, false)}, {2, c44Payload(17, true)}}, nil}}
			_, d0 := mid.run()
			n := d0.written[0]
			var offs []int
			for o := 0; o < n; o++ {
				if o < 96 || o > n-200 || o%509 == 0 || (o > d0.writes[0][0]-80 && o < d0.writes[0][0]+80) {
					offs = append(offs, o)
				}
			}
			r.Parallel(len(offs), func(i int) {
				cfg := *mid
				cfg.tamper = &c44Tamper{dir: 0, off: offs[i], mask: 0x80}
				c := map[string]any{"part": "frames", "set": "64k", "tamper_offset": offs[i], "mask": 128}
				r.Case(c, func() error {
					res, d := cfg.run()
					class, err := cfg.checkTampered(res, d)
					r.Outcome("frames:tamper-" + class + "-rejected")
					return err
				})
			})
		}

		// ---------------- (hs) real handshakes
		hsSizes := [][]int{{0, 1, 15}, {16, 17, 255}}
		if r.Thorough() {
			hsSizes = append(hsSizes, []int{65536, 0, 1000})
		}
		type hsCase struct {
			ki, kr      int
			snappy      bool
			secondFirst bool
			sizes       []int
		}
		var hsCases []hsCase
		for ki := 0; ki < 3; ki++ {
			for kr := 0; kr < 3; kr++ {
				for _, snappy := range []bool{false, true} {
					for _, sf := range []bool{false, true} {
						for _, sz := range hsSizes {
							hsCases = append(hsCases, hsCase{ki, kr, snappy, sf, sz})
						}
					}
				}
			}
		}
		mkSession := func(h hsCase) *c44Session {
			return &c44Session{keys: [2]*ecdsa.PrivateKey{c44Keys[h.ki], c44Keys[h.kr]}, snappy: h.snappy, secondFirst: h.secondFirst,
				send: [2][]c44Msg{c44MsgSet(h.sizes, codes, true), c44MsgSet(h.sizes, codes[1:], false)}}
		}
		r.Parallel(len(hsCases), func(i int) {
			h := hsCases[i]
			c := map[string]any{"part": "hs", "initiator_key": h.ki, "recipient_key": h.kr, "snappy": h.snappy, "recipient_writes_first": h.secondFirst, "sizes": h.sizes}
			r.Case(c, func() error {
				cfg := mkSession(h)
				res, _ := cfg.run()
				return cfg.checkClean(res)
			})
			r.DistinctHash(mc.Hash64(fmt.Sprint("hs", h)))
			r.Outcome("hs:session-ok")
			if i%17 == 0 {
				r.Sample(c)
			}
		})

		// fragmentation of handshake + frames
		{
			h := hsCase{0, 1, true, true, []int{16, 0, 255}}
			chunks := []int{1, 2, 3, 7, 16, 17, 64, 199, 307, 511, 512, 513, 1000}
			type fcase struct {
				chunk, dev, kind int
			}
			for _, sf := range []bool{false, true} {
				var fcases []fcase
				for _, ch := range chunks {
					fcases = append(fcases, fcase{ch, -1, 0})
				}
				hh := h
				hh.secondFirst = sf
				probe := mkSession(hh)
				_, d0 := probe.run()
				calls := max(d0.reads[0], d0.reads[1]) + 4
				for call := 0; call < calls; call++ {
					for kind := 0; kind < 5; kind++ {
						fcases = append(fcases, fcase{0, call, kind})
					}
				}
				r.Parallel(len(fcases), func(i int) {
					f := fcases[i]
					cfg := mkSession(hh)
					cfg.frag = c44Frag{
						readN: func(dir, call, want, avail int) int {
							if f.chunk > 0 {
								return f.chunk
							}
							if call == f.dev && f.kind == 0 {
								return 1
							}
							if call == f.dev && f.kind == 1 {
								return min(want, avail) - 1
							}
							return 0
						},
						splitAt: func(dir, call, n int) int {
							if f.chunk == 0 && call == f.dev && f.kind >= 2 {
								return []int{1, n / 2, n - 1}[f.kind-2]
							}
							return 0
						},
					}
					c := map[string]any{"part": "hs-frag", "recipient_writes_first": sf, "chunk": f.chunk, "deviation_call": f.dev, "deviation_kind": f.kind}
					r.Case(c, func() error { res, _ := cfg.run(); return cfg.checkClean(res) })
					r.DistinctHash(mc.Hash64(fmt.Sprint("hf", sf, f)))
					r.Outcome("hs:fragmented-ok")
					if i%41 == 0 {
						r.Sample(c)
					}
				})
			}
		}

		// every byte of both handshake packets and of the frames that follow
		{
			h := hsCase{0, 1, false, false, []int{1, 16}}
			masks := mc.Pick(r, []byte{0x01, 0x80}, []byte{0x01, 0x80, 0xff})
			// EIP-8 padding is 100..199 random bytes: enumerate offsets up to the largest possible stream
			probe := mkSession(h)
			_, d0 := probe.run()
			// (the largest possible handshake packet is 484 bytes; the frame bytes that follow are deterministic)
			frameBytes := 0
			for _, n := range d0.writes[0][1:] {
				frameBytes += n
			}
			maxLen := 520 + frameBytes
			r.Bound("hs.tamper_offsets_per_direction", maxLen)
			r.Parallel(2*maxLen, func(i int) {
				dir, off := i/maxLen, i%maxLen
				for _, m := range masks {
					cfg := mkSession(h)
					cfg.tamper = &c44Tamper{dir: dir, off: off, mask: m}
					c := map[string]any{"part": "hs-tamper", "dir": dir, "offset": off, "mask": int(m)}
					r.Case(c, func() error {
						res, d := cfg.run()
						class, err := cfg.checkTampered(res, d)
						r.Outcome("hs:tamper-" + class)
						return err
					})
					r.DistinctHash(mc.Hash64(fmt.Sprint("ht", dir, off, m)))
				}
				if i%173 == 0 {
					r.Sample(map[string]any{"part": "hs-tamper", "dir": dir, "offset": off, "mask": 1})
				}
			})
		}

		// handshake packets carrying invalid curve points
		c44InvalidPoints(r)
		c44CraftedPoints(r)

		// payload sizes on both sides of every boundary, in every compression mode
		c44SizeBoundary(r)
	})
}

// c44IntSize: RLP size of an unsigned integer (single byte below 0x80, else length prefix + big-endian bytes).
func c44IntSize(v uint64) int {
	if v < 0x80 {
		return 1
	}
	n := 0
	for ; v > 0; v >>= 8 {
		n++
	}
	return 1 + n
}

// c44SizeBoundary: one message per session over the frame layer, plain payload sizes on both sides of every
// boundary (empty, AES block / frame padding, 16-bit, and the 24-bit limit for the payload and for the frame)
// x {no compression, snappy with compressible data, snappy with incompressible data} x codes {0, 2^64-1}.
// Reference: a message is within the limit iff its plain size is <= 2^24-1 and RLP(code) plus the bytes that
// go on the wire (plain, or snappy-compressed) fit into a 24-bit frame size. Within the limit it must be written
// and delivered intact with the right code and wire size; otherwise it must never be delivered (Write or Read
// report an error), in particular not truncated.
func c44SizeBoundary(r *mc.R) {
	const lim = maxUint24
	compBuf := c44Payload(lim+2, true)
	randBuf := c44Payload(lim+2, false)
	// incompressible payload whose compressed frame is exactly at the limit (for code 0), found by bisection
	// on the (monotone) length of the snappy encoding
	atLimit := func(code uint64) int {
		lo, hi := lim-4096, lim
		for lo < hi {
			mid := (lo + hi + 1) / 2
			if c44IntSize(code)+len(snappy.Encode(nil, randBuf[:mid])) <= lim {
				lo = mid
			} else {
				hi = mid - 1
			}
		}
		return lo
	}
	small := []int{0, 1, 15, 16, 17, 31, 32, 33, 255, 256, 65535, 65536, 65537}
	type sz struct {
		n    int
		code uint64
		mode string // "off", "snappy-compressible", "snappy-incompressible"
	}
	var cases []sz
	modes := []string{"off", "snappy-compressible", "snappy-incompressible"}
	for _, mode := range modes {
		for _, n := range small {
			for _, code := range []uint64{0, ^uint64(0)} {
				cases = append(cases, sz{n, code, mode})
			}
		}
		// the 24-bit limit of the plain payload: always in the quick tier
		for _, n := range []int{lim - 1, lim, lim + 1} {
			cases = append(cases, sz{n, 0, mode})
		}
	}
	// the 24-bit limit of the frame (RLP(code) + wire bytes)
	n0 := atLimit(0)
	cases = append(cases,
		sz{lim - 9, ^uint64(0), "off"}, sz{lim - 8, ^uint64(0), "off"},
		sz{n0, 0, "snappy-incompressible"}, sz{n0 + 1, 0, "snappy-incompressible"})
	if r.Thorough() {
		n9 := atLimit(^uint64(0))
		for _, mode := range modes {
			for _, n := range []int{lim - 17, lim - 16, lim - 15, lim - 10, lim - 9, lim - 8, lim - 2, lim - 1, lim, lim + 1} {
				cases = append(cases, sz{n, ^uint64(0), mode}, sz{n, 1 << 32, mode})
			}
			for _, n := range []int{lim - 17, lim - 16, lim - 15, lim - 2} {
				cases = append(cases, sz{n, 0, mode})
			}
		}
		cases = append(cases, sz{n0 - 1, 0, "snappy-incompressible"}, sz{n9 - 1, ^uint64(0), "snappy-incompressible"},
			sz{n9, ^uint64(0), "snappy-incompressible"}, sz{n9 + 1, ^uint64(0), "snappy-incompressible"})
	}
	r.Bound("size_boundary.cases", len(cases))
	r.Bound("size_boundary.incompressible_frame_at_limit_plain_size", n0)
	// large cases hold several 16 MiB buffers each: at most 3 at a time
	sem := make(chan struct{}, 3)
	r.Parallel(len(cases), func(i int) {
		cs := cases[i]
		if cs.n > 1<<20 {
			sem <- struct{}{}
			defer func() { <-sem }()
		}
		buf := compBuf
		if cs.mode == "snappy-incompressible" {
			buf = randBuf
		}
		plain := buf[:cs.n]
		wireLen := cs.n
		if cs.mode != "off" {
			wireLen = len(snappy.Encode(nil, plain))
		}
		within := cs.n <= lim && c44IntSize(cs.code)+wireLen <= lim
		c := map[string]any{"part": "size", "plain_bytes": cs.n, "code": fmt.Sprint(cs.code), "mode": cs.mode}
		r.Case(c, func() error {
			cfg := &c44Session{snappy: cs.mode != "off", send: [2][]c44Msg{{{cs.code, plain}}, nil}}
			res, _ := cfg.run()
			w, rd := res[0], res[1]
			if w.panic != "" || rd.panic != "" {
				return fmt.Errorf("panic: %s%s", w.panic, rd.panic)
			}
			if within {
				if w.wErr != nil {
					return fmt.Errorf("message of %d plain bytes (%d on the wire, code %d, %s) is within the 24-bit limits but Write refused it: %v", cs.n, wireLen, cs.code, cs.mode, w.wErr)
				}
				if rd.readErr != nil {
					return fmt.Errorf("message of %d plain bytes (%d on the wire, code %d, %s) was written but not delivered: Read returned %v", cs.n, wireLen, cs.code, cs.mode, rd.readErr)
				}
				if err := c44SameMsgs(rd.got, cfg.send[0]); err != nil {
					return err
				}
				if rd.wire[0] != wireLen || int(w.wsizes[0]) != wireLen {
					return fmt.Errorf("wire size reported as %d (reader) / %d (writer), %d bytes were framed", rd.wire[0], w.wsizes[0], wireLen)
				}
				r.Outcome("size:" + cs.mode + ":delivered")
				return nil
			}
			if len(rd.got) != 0 {
				return fmt.Errorf("message of %d plain bytes (%d on the wire, code %d, %s) exceeds the limit but %d bytes were delivered", cs.n, wireLen, cs.code, cs.mode, len(rd.got[0].data))
			}
			if w.wErr == nil && rd.readErr == nil {
				return fmt.Errorf("over-limit message neither refused nor delivered")
			}
			if w.wErr != nil {
				r.Outcome("size:" + cs.mode + ":refused-by-write")
			} else {
				r.Outcome("size:" + cs.mode + ":refused-by-read")
			}
			return nil
		})
		r.DistinctHash(mc.Hash64(fmt.Sprint("sz", cs)))
		if cs.n >= lim-1 && cs.code == 0 {
			r.Sample(c)
		}
	})
}

// ---------------------------------------------------------------------------------------------------
// invalid curve points

var c44P = crypto.S256().Params().P

// c44OnCurve: canonical coordinates and y^2 = x^3 + 7 (mod p), checked with plain big.Int arithmetic.
func c44OnCurve(x, y *big.Int) bool {
	if x.Sign() < 0 || y.Sign() < 0 || x.Cmp(c44P) >= 0 || y.Cmp(c44P) >= 0 {
		return false
	}
	l := new(big.Int).Mul(y, y)
	l.Mod(l, c44P)
	rr := new(big.Int).Mul(x, x)
	rr.Mul(rr, x)
	rr.Add(rr, big.NewInt(7))
	rr.Mod(rr, c44P)
	return l.Cmp(rr) == 0
}

// c44AffineAdd / c44AffineMul: textbook affine chord-and-tangent formulas for y^2 = x^3 + b with a = 0. The
// formulas never use b, so on an input that is not on secp256k1 they silently compute in the group of the curve
// with b' = y^2 - x^3 — exactly what an implementation without point validation does. nil = point at infinity.
func c44AffineAdd(x1, y1, x2, y2 *big.Int) (*big.Int, *big.Int) {
	if x1 == nil {
		return x2, y2
	}
	if x2 == nil {
		return x1, y1
	}
	var lam *big.Int
	if x1.Cmp(x2) == 0 {
		if y1.Cmp(y2) != 0 || y1.Sign() == 0 {
			return nil, nil
		}
		num := new(big.Int).Mul(x1, x1)
		num.Mul(num, big.NewInt(3))
		den := new(big.Int).Lsh(y1, 1)
		den.Mod(den, c44P)
		inv := new(big.Int).ModInverse(den, c44P)
		if inv == nil {
			return nil, nil
		}
		lam = num.Mul(num, inv)
	} else {
		num := new(big.Int).Sub(y2, y1)
		den := new(big.Int).Sub(x2, x1)
		den.Mod(den, c44P)
		inv := new(big.Int).ModInverse(den, c44P)
		if inv == nil {
			return nil, nil
		}
		lam = num.Mul(num, inv)
	}
	lam.Mod(lam, c44P)
	x3 := new(big.Int).Mul(lam, lam)
	x3.Sub(x3, x1)
	x3.Sub(x3, x2)
	x3.Mod(x3, c44P)
	y3 := new(big.Int).Sub(x1, x3)
	y3.Mul(y3, lam)
	y3.Sub(y3, y1)
	y3.Mod(y3, c44P)
	return x3, y3
}

func c44AffineMul(x, y, k *big.Int) (*big.Int, *big.Int) {
	x = new(big.Int).Mod(x, c44P)
	y = new(big.Int).Mod(y, c44P)
	var rx, ry *big.Int
	for i := k.BitLen() - 1; i >= 0; i-- {
		rx, ry = c44AffineAdd(rx, ry, rx, ry)
		if k.Bit(i) == 1 {
			rx, ry = c44AffineAdd(rx, ry, x, y)
		}
	}
	return rx, ry
}

type c44Point struct {
	name string
	x, y *big.Int
}

func (q c44Point) bytes64() []byte {
	out := make([]byte, 64)
	q.x.FillBytes(out[:32])
	q.y.FillBytes(out[32:])
	return out
}

// c44InvalidPointSet: encodable (32+32 byte) coordinate pairs that are not points of secp256k1, derived from a
// valid point (x, y) and from the valid point with the smallest x (so that x+p still fits into 32 bytes).
func c44InvalidPointSet() []c44Point {
	pub := &c44Keys[2].PublicKey
	x, y := pub.X, pub.Y
	one := big.NewInt(1)
	var sx, sy *big.Int
	for c := int64(1); ; c++ {
		sx = big.NewInt(c)
		rhs := new(big.Int).Exp(sx, big.NewInt(3), c44P)
		rhs.Add(rhs, big.NewInt(7))
		if sy = new(big.Int).ModSqrt(rhs, c44P); sy != nil {
			break
		}
	}
	if !c44OnCurve(x, y) || !c44OnCurve(sx, sy) {
		panic("c44: base points must be valid")
	}
	ones := new(big.Int).Sub(new(big.Int).Lsh(one, 256), one)
	cands := []c44Point{
		{"y+1", x, new(big.Int).Add(y, one)},
		{"-y+1", x, new(big.Int).Add(new(big.Int).Sub(c44P, y), one)},
		{"x+1", new(big.Int).Add(x, one), y},
		{"x+p", new(big.Int).Add(sx, c44P), sy},
		{"x=p", new(big.Int).Set(c44P), y},
		{"zero", new(big.Int), new(big.Int)},
		{"all-ones", ones, ones},
	}
	var out []c44Point
	for _, q := range cands {
		if q.x.BitLen() > 256 || q.y.BitLen() > 256 {
			panic("c44: invalid point " + q.name + " not encodable")
		}
		if c44OnCurve(q.x, q.y) {
			panic("c44: candidate " + q.name + " is a valid point")
		}
		out = append(out, q)
	}
	return out
}

// c44SharedCandidates: the 32-byte ECDH x coordinate a recipient with private scalar d would derive from point q
// if it used it without validation — once with the harness' own affine arithmetic, once with the library's
// ScalarMult (they may differ on off-curve input, e.g. with endomorphism-based multiplication).
func c44SharedCandidates(q c44Point, d *big.Int) map[string][]byte {
	out := map[string][]byte{}
	if rx, _ := c44AffineMul(q.x, q.y, d); rx != nil {
		out["own-affine"] = rx.FillBytes(make([]byte, 32))
	} else {
		out["own-affine"] = make([]byte, 32) // infinity: the best guess is x = 0
	}
	func() {
		defer func() { recover() }()
		if lx, _ := crypto.S256().ScalarMult(q.x, q.y, d.Bytes()); lx != nil && lx.BitLen() <= 256 {
			out["library"] = lx.FillBytes(make([]byte, 32))
		}
	}()
	return out
}

// c44SealWith builds an EIP-8 handshake packet (prefix || 0x04 || X || Y || iv || ciphertext || tag) around plain
// for ephemeral "public key" q and ECDH result z, following ECIES_AES128_SHA256 as used by package ecies
// (NIST concat-KDF over SHA-256, AES-128-CTR, HMAC-SHA-256 with the size prefix as shared MAC data). That this
// reimplementation is right is established by the control cases, which a real Conn must accept.
func c44SealWith(q c44Point, z, plain []byte) []byte {
	plain = append(bytes.Clone(plain), make([]byte, 150)...) // EIP-8 padding
	prefix := make([]byte, 2)
	binary.BigEndian.PutUint16(prefix, uint16(len(plain)+eciesOverhead))
	kd := sha256.New()
	kd.Write([]byte{0, 0, 0, 1})
	kd.Write(z)
	k := kd.Sum(nil)
	ke := k[:16]
	kmh := sha256.Sum256(k[16:])
	iv := crypto.Keccak256([]byte("c44 iv"))[:16]
	block, err := aes.NewCipher(ke)
	if err != nil {
		panic(err)
	}
	em := make([]byte, 16+len(plain))
	copy(em, iv)
	cipher.NewCTR(block, iv).XORKeyStream(em[16:], plain)
	mac := hmac.New(sha256.New, kmh[:])
	mac.Write(em)
	mac.Write(prefix)
	pkt := append(bytes.Clone(prefix), 0x04)
	pkt = append(pkt, q.bytes64()...)
	pkt = append(pkt, em...)
	pkt = append(pkt, mac.Sum(nil)...)
	return pkt
}

// c44CraftedPoints: handshake packets whose ECIES ephemeral key (auth and auth-ack) or embedded static key is
// an invalid point and whose ciphertext, tag and identity signature are CONSISTENT with what the victim's own
// scalar yields on that point. The harness uses the victim's private key for that, standing in for an attacker
// who chose a small-order point on a weak curve. The only thing that can reject such a packet is point
// validation; the victim must report an error, derive no secrets and hold no session.
func c44CraftedPoints(r *mc.R) {
	initKey, respKey, ephKey := c44Keys[0], c44Keys[1], c44Keys[2]
	validEph := c44Point{"valid", ephKey.PublicKey.X, ephKey.PublicKey.Y}

	authPlain := func() []byte {
		h := handshakeState{initiator: true, remote: ecies.ImportECDSAPublic(&respKey.PublicKey)}
		msg, err := h.makeAuthMsg(initKey)
		if err != nil {
			panic(err)
		}
		b, err := rlp.EncodeToBytes(msg)
		if err != nil {
			panic(err)
		}
		return b
	}
	ackPlain := func() []byte {
		resp := new(authRespV4)
		copy(resp.RandomPubkey[:], crypto.FromECDSAPub(&ephKey.PublicKey)[1:])
		copy(resp.Nonce[:], crypto.Keccak256([]byte("c44 ack nonce")))
		resp.Version = 4
		b, err := rlp.EncodeToBytes(resp)
		if err != nil {
			panic(err)
		}
		return b
	}
	// victim = recipient: the attacker writes the packet and drains whatever comes back
	toRecipient := func(pkt []byte) (hsErr error, remote *ecdsa.PublicKey, session bool, panicked string) {
		d := c44NewDuplex(c44Frag{}, nil)
		d.run(func(nc net.Conn) {
			nc.Write(pkt)
			nc.Read(make([]byte, 2048))
		}, func(nc net.Conn) {
			defer func() {
				if x := recover(); x != nil {
					panicked = fmt.Sprint(x)
				}
			}()
			conn := NewConn(nc, nil)
			remote, hsErr = conn.Handshake(respKey)
			session = conn.session != nil
		})
		return
	}
	// victim = initiator: the attacker consumes the auth packet and answers with the crafted auth-ack
	toInitiator := func(pkt []byte) (hsErr error, remote *ecdsa.PublicKey, session bool, panicked string) {
		d := c44NewDuplex(c44Frag{}, nil)
		d.run(func(nc net.Conn) {
			defer func() {
				if x := recover(); x != nil {
					panicked = fmt.Sprint(x)
				}
			}()
			conn := NewConn(nc, &respKey.PublicKey)
			remote, hsErr = conn.Handshake(initKey)
			session = conn.session != nil
		}, func(nc net.Conn) {
			var h handshakeState
			if _, err := h.readMsg(new(authMsgV4), respKey, nc); err != nil {
				panic(err)
			}
			nc.Write(pkt)
		})
		return
	}

	// control: the same construction around a VALID ephemeral point must be accepted, otherwise the cases
	// below would be rejected for being malformed and prove nothing
	for _, which := range []string{"auth", "ack"} {
		victim, plain, deliver := respKey, authPlain, toRecipient
		if which == "ack" {
			victim, plain, deliver = initKey, ackPlain, toInitiator
		}
		for name, z := range c44SharedCandidates(validEph, victim.D) {
			r.Case(map[string]any{"part": "crafted-point", "where": "ecies-envelope-" + which, "point": "valid(control)", "ecdh": name}, func() error {
				hsErr, remote, session, panicked := deliver(c44SealWith(validEph, z, plain()))
				if panicked != "" || hsErr != nil || !session {
					return fmt.Errorf("control packet with a valid ephemeral point was not accepted (err %v, panic %q): the crafted-packet construction is broken", hsErr, panicked)
				}
				if which == "auth" && (remote == nil || remote.X.Cmp(initKey.PublicKey.X) != 0) {
					return fmt.Errorf("control: recipient learned a wrong initiator key")
				}
				r.Outcome("crafted-point:control-accepted")
				return nil
			})
		}
	}

	for _, q := range c44InvalidPointSet() {
		// (1)(2) ECIES envelope of auth / auth-ack
		for _, which := range []string{"auth", "ack"} {
			victim, plain, deliver := respKey, authPlain, toRecipient
			if which == "ack" {
				victim, plain, deliver = initKey, ackPlain, toInitiator
			}
			cands := c44SharedCandidates(q, victim.D)
			for _, name := range []string{"own-affine", "library"} {
				z, ok := cands[name]
				if !ok {
					r.Outcome("crafted-point:library-refuses-to-multiply")
					continue
				}
				c := map[string]any{"part": "crafted-point", "where": "ecies-envelope-" + which, "point": q.name, "ecdh": name}
				r.Case(c, func() error {
					hsErr, _, session, panicked := deliver(c44SealWith(q, z, plain()))
					if panicked != "" {
						return fmt.Errorf("victim panicked on ephemeral key %s: %s", q.name, panicked)
					}
					if hsErr == nil || session {
						return fmt.Errorf("%s packet whose ECIES ephemeral key is the invalid point %s (%x..) and whose ciphertext/tag match the victim's ECDH on that point was decrypted and used: Handshake returned %v, session=%v", which, q.name, q.bytes64()[:8], hsErr, session)
					}
					if !errors.Is(hsErr, ecies.ErrInvalidPublicKey) {
						return fmt.Errorf("%s packet with invalid ephemeral point %s failed with %q, not with ecies.ErrInvalidPublicKey: the point was fed into the key agreement before being refused", which, q.name, hsErr)
					}
					r.Outcome("crafted-point:rejected-as-invalid-key")
					return nil
				})
				r.DistinctHash(mc.Hash64(fmt.Sprint("cp", which, q.name, name)))
				r.Sample(c)
			}
		}
		// (3) static initiator key inside the auth message, with the identity signature made over the token
		// the recipient derives from that point; the envelope is honest (package's own sealEIP8)
		cands := c44SharedCandidates(q, respKey.D)
		for _, name := range []string{"own-affine", "library"} {
			token, ok := cands[name]
			if !ok {
				continue
			}
			c := map[string]any{"part": "crafted-point", "where": "auth.InitiatorPubkey+signature", "point": q.name, "ecdh": name}
			r.Case(c, func() error {
				h := handshakeState{initiator: true, remote: ecies.ImportECDSAPublic(&respKey.PublicKey)}
				msg := new(authMsgV4)
				nonce := crypto.Keccak256([]byte("c44 init nonce"))
				sig, err := crypto.Sign(xor(token, nonce), ephKey)
				if err != nil {
					panic(err)
				}
				copy(msg.Signature[:], sig)
				copy(msg.InitiatorPubkey[:], q.bytes64())
				copy(msg.Nonce[:], nonce)
				msg.Version = 4
				pkt, err := h.sealEIP8(msg)
				if err != nil {
					panic(err)
				}
				hsErr, _, session, panicked := toRecipient(pkt)
				if panicked != "" {
					return fmt.Errorf("recipient panicked on static key %s: %s", q.name, panicked)
				}
				if hsErr == nil || session {
					return fmt.Errorf("auth message with static key = invalid point %s and a matching identity signature was accepted", q.name)
				}
				r.Outcome("crafted-point:static-key-rejected")
				return nil
			})
		}
	}
}

func c44InvalidPoints(r *mc.R) {
	initKey, respKey := c44Keys[0], c44Keys[1]
	for _, q := range c44InvalidPointSet() {
		name, bad := q.name, q.bytes64()
		// (1) auth message whose InitiatorPubkey is not a curve point -> recipient must fail
		r.Case(map[string]any{"part": "invalid-point", "where": "auth.InitiatorPubkey", "point": name}, func() error {
			d := c44NewDuplex(c44Frag{}, nil)
			var hsErr error
			var delivered bool
			d.run(func(nc net.Conn) {
				h := handshakeState{initiator: true, remote: ecies.ImportECDSAPublic(&respKey.PublicKey)}
				msg, err := h.makeAuthMsg(initKey)
				if err != nil {
					panic(err)
				}
				copy(msg.InitiatorPubkey[:], bad)
				pkt, err := h.sealEIP8(msg)
				if err != nil {
					panic(err)
				}
				nc.Write(pkt)
			}, func(nc net.Conn) {
				defer func() {
					if x := recover(); x != nil {
						hsErr, delivered = nil, true
					}
				}()
				conn := NewConn(nc, nil)
				_, hsErr = conn.Handshake(respKey)
				delivered = conn.session != nil
			})
			if hsErr == nil || delivered {
				return fmt.Errorf("recipient completed a handshake (or panicked) with initiator public key %q (not on the curve)", name)
			}
			r.Outcome("invalid-point:rejected")
			return nil
		})
		// (2) auth-ack whose RandomPubkey is not a curve point -> initiator must fail
		r.Case(map[string]any{"part": "invalid-point", "where": "ack.RandomPubkey", "point": name}, func() error {
			d := c44NewDuplex(c44Frag{}, nil)
			var hsErr error
			var delivered bool
			d.run(func(nc net.Conn) {
				defer func() {
					if x := recover(); x != nil {
						hsErr, delivered = nil, true
					}
				}()
				conn := NewConn(nc, &respKey.PublicKey)
				_, hsErr = conn.Handshake(initKey)
				delivered = conn.session != nil
			}, func(nc net.Conn) {
				var h handshakeState
				if _, err := h.readMsg(new(authMsgV4), respKey, nc); err != nil {
					panic(err)
				}
				h.remote = ecies.ImportECDSAPublic(&initKey.PublicKey)
				resp := new(authRespV4)
				copy(resp.RandomPubkey[:], bad)
				copy(resp.Nonce[:], crypto.Keccak256([]byte("nonce")))
				resp.Version = 4
				pkt, err := h.sealEIP8(resp)
				if err != nil {
					panic(err)
				}
				nc.Write(pkt)
			})
			if hsErr == nil || delivered {
				return fmt.Errorf("initiator completed a handshake (or panicked) with ephemeral public key %q (not on the curve)", name)
			}
			r.Outcome("invalid-point:rejected")
			return nil
		})
		// (3) ECIES envelope: the sender's ephemeral key replaced by a non-point, in both packets
		for _, which := range []string{"auth", "ack"} {
			r.Case(map[string]any{"part": "invalid-point", "where": "ecies-envelope-" + which, "point": name}, func() error {
				dir := 0
				if which == "ack" {
					dir = 1
				}
				cfg := &c44Session{keys: [2]*ecdsa.PrivateKey{initKey, respKey}, send: [2][]c44Msg{{{1, []byte("x")}}, {{2, []byte("y")}}}}
				// overwrite bytes 3..66 (X||Y after the 0x04 marker) of the handshake packet of direction dir
				cfg.rewrite = func(d, call int, pkt []byte) bool {
					if d == dir && call == 0 {
						copy(pkt[3:67], bad)
						return true
					}
					return false
				}
				res, dd := cfg.run()
				if !dd.hit {
					return errors.New("harness: packet not rewritten")
				}
				recv := 1 - dir
				if res[recv].hsErr == nil || res[recv].panic != "" {
					return fmt.Errorf("party %d decrypted a handshake packet whose ECIES ephemeral key is %q", recv, name)
				}
				if !errors.Is(res[recv].hsErr, ecies.ErrInvalidPublicKey) {
					return fmt.Errorf("party %d refused the packet with ephemeral key %q with %q, not with ecies.ErrInvalidPublicKey: the point reached the key agreement", recv, name, res[recv].hsErr)
				}
				if len(res[recv].got) != 0 {
					return fmt.Errorf("party %d delivered messages", recv)
				}
				r.Outcome("invalid-point:rejected")
				return nil
			})
		}
	}
}

