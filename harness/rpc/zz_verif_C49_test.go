//go:build verif

package rpc

import (
	"context"
	"encoding/json"
	"errors"
	"fmt"
	"sort"
	"strings"
	"testing"
	"time"

	"github.com/ethereum/go-ethereum/internal/verif/mc"
	"github.com/ethereum/go-ethereum/internal/verif/vsched"
	"github.com/ethereum/go-ethereum/log"
)

// ---- test service ------------------------------------------------------------------------

type c49Service struct{}

func (s *c49Service) Echo(x int) int { return x }
func (s *c49Service) Fail() error    { return errors.New("c49 failure") }
func (s *c49Service) Big(n int) string {
	return strings.Repeat("x", n)
}

// Block returns only once its context is cancelled (timeout or connection close).
func (s *c49Service) Block(ctx context.Context) error {
	vsched.Await(func() bool { return ctx.Err() != nil })
	return ctx.Err()
}

// Sub creates a subscription and a notifier thread that pushes two notifications right away.
func (s *c49Service) Sub(ctx context.Context) (*Subscription, error) {
	n, ok := NotifierFromContext(ctx)
	if !ok {
		return nil, ErrNotificationsUnsupported
	}
	sub := n.CreateSubscription()
	vsched.GoNamed("notifier", func() {
		n.Notify(sub.ID, 1)
		n.Notify(sub.ID, 2)
	})
	return sub, nil
}

// ---- recording writer --------------------------------------------------------------------

type c49Write struct {
	batch bool
	msgs  []c49Msg
}

type c49Msg struct {
	id     string // raw JSON of the id ("" = absent)
	method string // non-empty for server->client notifications
	isErr  bool
	code   int
	subID  string // subscription id carried by a notification, or returned by a subscribe response
	result string
}

type c49Conn struct {
	writes []c49Write
}

func c49Decode(m *jsonrpcMessage) c49Msg {
	out := c49Msg{id: string(m.ID), method: m.Method, result: string(m.Result)}
	if m.Error != nil {
		out.isErr = true
		if je := m.decodeError(); je != nil {
			out.code = je.Code
		}
	}
	if m.Method != "" && len(m.Params) > 0 {
		var p struct {
			ID string `json:"subscription"`
		}
		json.Unmarshal(m.Params, &p)
		out.subID = p.ID
	}
	return out
}

func (c *c49Conn) writeJSON(ctx context.Context, msg *jsonrpcMessage, isError bool) error {
	// a write to the connection is a visible operation (real codecs take an encoder lock and do I/O here):
	// it is a scheduling point, so that "decide under the lock, write after releasing it" windows are explored
	vsched.Yield("conn.writeJSON")
	c.writes = append(c.writes, c49Write{msgs: []c49Msg{c49Decode(msg)}})
	return nil
}

func (c *c49Conn) writeJSONBatch(ctx context.Context, msgs []*jsonrpcMessage, isError bool) error {
	vsched.Yield("conn.writeJSONBatch")
	w := c49Write{batch: true}
	for _, m := range msgs {
		w.msgs = append(w.msgs, c49Decode(m))
	}
	c.writes = append(c.writes, w)
	return nil
}

func (c *c49Conn) closed() <-chan any { return nil }
func (c *c49Conn) remoteAddr() string { return "" }

// deadlineCtx reports a deadline without arming any real timer: the handler derives its timeout from it and
// arms a (controlled) timer which may then fire at any scheduling point.
type c49DeadlineCtx struct{ context.Context }

func (c49DeadlineCtx) Deadline() (time.Time, bool) { return time.Now().Add(time.Hour), true }

// ---- input alphabet ----------------------------------------------------------------------

type c49Entry struct {
	Name string
	kind string // call, notification, invalid-id, invalid-noid, response, subscribe
	msg  jsonrpcMessage
}

func c49Alphabet() []c49Entry {
	raw := func(s string) json.RawMessage { return json.RawMessage(s) }
	return []c49Entry{
		{"echo#1", "call", jsonrpcMessage{Version: vsn, ID: raw("1"), Method: "t_echo", Params: raw("[7]")}},
		{"echo#1dup", "call", jsonrpcMessage{Version: vsn, ID: raw("1"), Method: "t_echo", Params: raw("[8]")}},
		{"block#2", "call", jsonrpcMessage{Version: vsn, ID: raw("2"), Method: "t_block"}},
		{"fail#3", "call", jsonrpcMessage{Version: vsn, ID: raw("3"), Method: "t_fail"}},
		{"big#4", "call", jsonrpcMessage{Version: vsn, ID: raw("4"), Method: "t_big", Params: raw("[64]")}},
		{"notify-echo", "notification", jsonrpcMessage{Version: vsn, Method: "t_echo", Params: raw("[9]")}},
		{"notify-block", "notification", jsonrpcMessage{Version: vsn, Method: "t_block"}},
		{"invalid#5", "invalid-id", jsonrpcMessage{Version: vsn, ID: raw("5")}},
		{"invalid-noid", "invalid-noid", jsonrpcMessage{Version: vsn}},
		{"response#6", "response", jsonrpcMessage{Version: vsn, ID: raw("6"), Result: raw("1")}},
		{"subscribe#7", "subscribe", jsonrpcMessage{Version: vsn, ID: raw("7"), Method: "t_subscribe", Params: raw(`["sub"]`)}},
		{"nomethod#8", "call", jsonrpcMessage{Version: vsn, ID: raw("8"), Method: "t_missing"}},
		// a CALL (with id) whose method name carries the client-side notification suffix must still be answered
		// (method not found); only the id-less form is a subscription notification and is answered by nothing
		{"subsuffix#9", "call", jsonrpcMessage{Version: vsn, ID: raw("9"), Method: "t" + notificationMethodSuffix, Params: raw(`{"subscription":"0x1","result":1}`)}},
		{"notify-subsuffix", "notification", jsonrpcMessage{Version: vsn, Method: "t" + notificationMethodSuffix, Params: raw(`{"subscription":"0x1","result":1}`)}},
	}
}

type c49Input struct {
	Batch     bool
	Entries   []int // indices into the alphabet
	Timeout   bool
	ItemLimit int
	SizeLimit int
}

func (in c49Input) name(al []c49Entry) string {
	var n []string
	for _, e := range in.Entries {
		n = append(n, al[e].Name)
	}
	k := "single"
	if in.Batch {
		k = "batch"
	}
	return fmt.Sprintf("%s[%s] timeout=%v items<=%d bytes<=%d", k, strings.Join(n, ","), in.Timeout, in.ItemLimit, in.SizeLimit)
}

type c49State struct {
	conn *c49Conn
	h    *handler
}

func c49Body(al []c49Entry, in c49Input) func() {
	return func() {
		st := &c49State{conn: &c49Conn{}}
		vsched.SetData(st)
		reg := &serviceRegistry{}
		if err := reg.registerName("t", new(c49Service)); err != nil {
			panic(err)
		}
		var ctx context.Context = context.Background()
		if in.Timeout {
			ctx = c49DeadlineCtx{ctx}
		}
		h := newHandler(ctx, st.conn, func() ID { return ID("0xc49") }, reg, in.ItemLimit, in.SizeLimit, nil)
		h.log = log.NewLogger(log.DiscardHandler())
		st.h = h
		var msgs []*jsonrpcMessage
		for _, e := range in.Entries {
			m := al[e].msg // copy
			msgs = append(msgs, &m)
		}
		if in.Batch {
			h.handleBatch(msgs)
		} else {
			h.handleMsg(msgs[0])
		}
		// wait for the call goroutines like the connection loop does on shutdown
		h.callWG.Wait()
	}
}

func c49Check(al []c49Entry, in c49Input) func(x *vsched.Exec) error {
	return func(x *vsched.Exec) error {
		if len(x.Panics) > 0 {
			return fmt.Errorf("panic: %s", x.Panics[0])
		}
		if x.Horizon {
			return fmt.Errorf("no termination within the step horizon")
		}
		if x.Deadlock != "" {
			// a blocking method without timeout never returns: that is the method's contract, not the server's
			blockNoTimeout := false
			for _, e := range in.Entries {
				if strings.Contains(al[e].Name, "block") && !in.Timeout {
					blockNoTimeout = true
				}
			}
			if !blockNoTimeout {
				return fmt.Errorf("deadlock: %s", x.Deadlock)
			}
		}
		st := x.Data.(*c49State)
		ws := st.conn.writes
		hist := c49Hist(ws)
		// flatten responses (messages without method) and notifications
		type resp struct {
			m     c49Msg
			write int
		}
		var resps []resp
		subRespWrite := -1
		nbatch := 0
		for wi, w := range ws {
			if w.batch {
				nbatch++
			}
			for _, m := range w.msgs {
				if m.method != "" {
					// server->client notification of a subscription
					if subRespWrite < 0 || subRespWrite >= wi {
						return fmt.Errorf("subscription notification written before the response to its subscribe call: %s", hist)
					}
					continue
				}
				resps = append(resps, resp{m, wi})
				if m.id == "7" && subRespWrite < 0 {
					subRespWrite = wi // the response to the subscribe call (result carrying the id, or an error)
				}
			}
		}
		if in.Batch && nbatch > 1 {
			return fmt.Errorf("batch reply written %d times: %s", nbatch, hist)
		}
		count := func(id string) int {
			n := 0
			for _, r := range resps {
				if r.m.id == id {
					n++
				}
			}
			return n
		}
		// expected responses per id
		blocked := x.Deadlock != ""
		if in.Batch && len(in.Entries) == 0 {
			if len(resps) != 1 || !resps[0].m.isErr || (resps[0].m.id != "" && resps[0].m.id != "null") {
				return fmt.Errorf("empty batch must be answered by exactly one error with null id: %s", hist)
			}
			return nil
		}
		if in.Batch && in.ItemLimit != 0 && len(in.Entries) > in.ItemLimit {
			first := "null"
			for _, e := range in.Entries {
				if al[e].msg.isCall() {
					first = string(al[e].msg.ID)
					break
				}
			}
			if len(resps) != 1 || !resps[0].m.isErr {
				return fmt.Errorf("over-limit batch must be answered by exactly one error: %s", hist)
			}
			if got := resps[0].m.id; got != first && !(first == "null" && got == "") {
				return fmt.Errorf("over-limit batch error carries id %q, want the first call's id %s: %s", got, first, hist)
			}
			return nil
		}
		want := map[string]int{}
		nullWant := 0
		for _, e := range in.Entries {
			switch al[e].kind {
			case "call", "subscribe", "invalid-id":
				want[string(al[e].msg.ID)]++
			case "invalid-noid":
				nullWant++
			}
		}
		if blocked {
			// execution stuck in a blocking method without timeout: only "at most once" can be judged
			for id, n := range want {
				if c := count(id); c > n {
					return fmt.Errorf("id %s answered %d times for %d call(s): %s", id, c, n, hist)
				}
			}
			return nil
		}
		for id, n := range want {
			if c := count(id); c != n {
				return fmt.Errorf("id %s answered %d times, want exactly %d (one per call entry): %s", id, c, n, hist)
			}
		}
		nullGot := 0
		for _, r := range resps {
			if r.m.id == "" || r.m.id == "null" {
				nullGot++
				continue
			}
			if want[r.m.id] == 0 {
				return fmt.Errorf("response with id %s that no call entry carries: %s", r.m.id, hist)
			}
		}
		if nullGot != nullWant {
			return fmt.Errorf("%d response(s) without id written, want %d (only invalid requests without id are answered that way; notifications get none): %s", nullGot, nullWant, hist)
		}
		// batch entries are answered inside the one batch write
		if in.Batch {
			for _, r := range resps {
				if !ws[r.write].batch {
					return fmt.Errorf("response to a batch entry written outside the batch reply: %s", hist)
				}
			}
		}
		return nil
	}
}

func c49Hist(ws []c49Write) string {
	var parts []string
	for _, w := range ws {
		var ms []string
		for _, m := range w.msgs {
			switch {
			case m.method != "":
				ms = append(ms, "notif("+m.subID+")")
			case m.isErr:
				ms = append(ms, fmt.Sprintf("err(id=%s,code=%d)", m.id, m.code))
			default:
				ms = append(ms, fmt.Sprintf("ok(id=%s)", m.id))
			}
		}
		if w.batch {
			parts = append(parts, "BATCH["+strings.Join(ms, " ")+"]")
		} else {
			parts = append(parts, strings.Join(ms, " "))
		}
	}
	return "writes: " + strings.Join(parts, " | ")
}

func c49Obs(x *vsched.Exec) string {
	st, ok := x.Data.(*c49State)
	if !ok {
		return "nodata"
	}
	return c49Hist(st.conn.writes) + fmt.Sprint(x.Deadlock != "")
}

func TestVerif_C49(t *testing.T) {
	mc.Run(t, "C49", func(r *mc.R) {
		al := c49Alphabet()
		maxPre := 3
		r.Rule("inputs: every single message of a 14-entry alphabet (calls, duplicate id, blocking call, failing call, large result, notifications, invalid entries with/without id, " +
			"a response object, a subscribe call, an unknown method, a call and a notification whose method name ends in the subscription-notification suffix) and every batch of <=2 (quick) / <=3 (thorough) entries, x timeout {unset,set} x item/size limits; " +
			"for each input ALL schedules of {call processor, timeout timer (may fire at any point until stopped), subscription notifier threads} with <=k preemptions are executed on the real rpc handler " +
			"(handler.go, subscription.go instrumented); one evaluation = one complete execution; distinct = distinct write histories per input")
		r.Bound("max_preemptions", maxPre)
		var inputs []c49Input
		for i := range al {
			for _, to := range []bool{false, true} {
				inputs = append(inputs, c49Input{Entries: []int{i}, Timeout: to})
			}
		}
		// batches
		inputs = append(inputs, c49Input{Batch: true, Timeout: true})
		maxLen := mc.Pick(r, 2, 3)
		var rec func(cur []int)
		rec = func(cur []int) {
			if len(cur) > 0 {
				c := append([]int{}, cur...)
				inputs = append(inputs, c49Input{Batch: true, Entries: c, Timeout: true})
				if len(c) >= 2 {
					inputs = append(inputs, c49Input{Batch: true, Entries: c, Timeout: true, ItemLimit: len(c) - 1})
					inputs = append(inputs, c49Input{Batch: true, Entries: c, Timeout: true, SizeLimit: 20})
					inputs = append(inputs, c49Input{Batch: true, Entries: c, Timeout: false, SizeLimit: 20})
				}
			}
			if len(cur) == maxLen {
				return
			}
			for i := range al {
				rec(append(cur, i))
			}
		}
		rec(nil)
		r.Bound("inputs", len(inputs))
		sort.SliceStable(inputs, func(i, j int) bool { return len(inputs[i].Entries) < len(inputs[j].Entries) })
		done := 0
		for _, in := range inputs {
			if r.Expired() {
				break
			}
			pre := maxPre
			if len(in.Entries) >= 3 {
				pre = 2
			}
			vsched.RunMC(r, vsched.Scenario{Name: in.name(al), Body: c49Body(al, in), Check: c49Check(al, in), Obs: c49Obs, MaxSteps: 3000}, pre)
			done++
		}
		r.Bound("inputs_completed", done)
	})
}
