//go:build verif

package snap

// C48, live family: the snap server is questioned while the chain grows and the layered
// flat-state (snapshot diff layers in the hash scheme, pathdb diff layers in the path
// scheme) is capped / flattened underneath it. The layer caps are scaled down to 1 for
// this step (state.TriesInMemory, pathdb.maxDiffLayers re-valued by the instrumenter), so
// the real block import path flattens a layer with every block.

import (
	"fmt"
	"math/big"
	"sync/atomic"
	"testing"
	"time"

	"github.com/ethereum/go-ethereum/common"
	"github.com/ethereum/go-ethereum/consensus/ethash"
	"github.com/ethereum/go-ethereum/core"
	"github.com/ethereum/go-ethereum/core/rawdb"
	"github.com/ethereum/go-ethereum/core/state"
	"github.com/ethereum/go-ethereum/core/types"
	"github.com/ethereum/go-ethereum/crypto"
	"github.com/ethereum/go-ethereum/internal/verif/mc"
	"github.com/ethereum/go-ethereum/params"
)

var (
	c48lKey, _ = crypto.HexToECDSA("b71c71a67e1177ad4e901695e1b4b9ee17ae16c6668d313eac2f96dbcda3f291")
	c48lSender = crypto.PubkeyToAddress(c48lKey.PublicKey)
	c48lX      = common.HexToAddress("0xc480000000000000000000000000000000000001") // setter contract, 3 slots
	c48lZ      = common.HexToAddress("0xc480000000000000000000000000000000000002") // setter contract, 2 slots
	c48lY      = common.HexToAddress("0xc480000000000000000000000000000000000003") // self-destructing contract, 2 slots
	// SSTORE(calldata[0:32], calldata[32:64]): PUSH1 0x20 CALLDATALOAD PUSH1 0 CALLDATALOAD SSTORE STOP
	c48lSetter = []byte{0x60, 0x20, 0x35, 0x60, 0x00, 0x35, 0x55, 0x00}
	c48lSuicide = []byte{0x33, 0xff} // CALLER SELFDESTRUCT
)

var c48lOps = []string{"empty", "X-add-slot", "X-modify+delete-slot", "Z-add-slot+new-account", "Y-destroy"}

func c48lSlots(vals ...int64) map[common.Hash]common.Hash {
	m := map[common.Hash]common.Hash{}
	for i, v := range vals {
		m[common.BigToHash(big.NewInt(int64(i+1)))] = common.BigToHash(big.NewInt(v))
	}
	return m
}

func c48lGenesis() *core.Genesis {
	return &core.Genesis{
		Config: params.TestChainConfig,
		Alloc: types.GenesisAlloc{
			c48lSender:  {Balance: new(big.Int).Mul(big.NewInt(1000), big.NewInt(params.Ether))},
			c48lX:       {Balance: big.NewInt(1), Code: c48lSetter, Storage: c48lSlots(11, 12, 13)},
			c48lZ:       {Balance: big.NewInt(2), Code: c48lSetter, Storage: c48lSlots(21, 22)},
			c48lY:       {Balance: big.NewInt(3), Code: c48lSuicide, Storage: c48lSlots(31, 32)},
			c48Addr(77): {Balance: big.NewInt(77)},
		},
	}
}

// c48lBlocks generates the chain for one op sequence.
func c48lBlocks(gspec *core.Genesis, ops []int) []*types.Block {
	_, blocks, _ := core.GenerateChainWithGenesis(gspec, ethash.NewFaker(), len(ops), func(i int, gen *core.BlockGen) {
		number := int64(i + 1)
		send := func(to common.Address, value int64, data []byte) {
			price := big.NewInt(params.GWei)
			if fee := gen.BaseFee(); fee != nil && fee.Cmp(price) > 0 {
				price = fee
			}
			tx, err := types.SignTx(types.NewTransaction(gen.TxNonce(c48lSender), to, big.NewInt(value), 100000, price, data), gen.Signer(), c48lKey)
			if err != nil {
				panic(err)
			}
			gen.AddTx(tx)
		}
		set := func(slot, value int64) []byte {
			return append(common.BigToHash(big.NewInt(slot)).Bytes(), common.BigToHash(big.NewInt(value)).Bytes()...)
		}
		switch c48lOps[ops[i]] {
		case "X-add-slot":
			send(c48lX, 0, set(100+number, 1000+number))
		case "X-modify+delete-slot": // slot 1 gets a new value; slot 2 is deleted (re-created if it was deleted before)
			send(c48lX, 0, set(1, 500+number))
			if number%2 == 0 {
				send(c48lX, 0, set(2, 900+number))
			} else {
				send(c48lX, 0, set(2, 0))
			}
		case "Z-add-slot+new-account":
			send(c48lZ, 0, set(200+number, 2000+number))
			send(common.BytesToAddress([]byte{0xc4, 0x81, byte(number)}), 5, nil)
		case "Y-destroy":
			send(c48lY, 0, nil)
		}
	})
	return blocks
}

type c48lCase struct {
	Kind     string   `json:"kind"`
	Scheme   string   `json:"scheme"`
	Ops      []string `json:"ops"`      // one block each
	AskAfter []int    `json:"askAfter"` // block numbers after which the request set is issued (the last block always)
}

// c48lAsk issues the request set against the roots of the last two blocks and judges every response.
func c48lAsk(chain *core.BlockChain, roots []common.Hash, count map[string]int) error {
	hx, hz, hy := crypto.Keccak256Hash(c48lX[:]), crypto.Keccak256Hash(c48lZ[:]), crypto.Keccak256Hash(c48lY[:])
	for back, root := range roots {
		tr, err := c48ReadTruthOpt(chain, root, false)
		if err != nil {
			return fmt.Errorf("harness: truth at head-%d: %v", back, err)
		}
		mid := tr.accts[len(tr.accts)/2].hash
		for qi, q := range []struct {
			origin common.Hash
			budget uint64
		}{{common.Hash{}, 1_000_000}, {mid, 100}, {common.Hash{}, 100}, {mid, 1_000_000}} {
			if back > 0 && qi >= 2 {
				break // the older root gets half of the request set
			}
			req := &GetAccountRangePacket{ID: 1, Root: root, Origin: q.origin, Limit: common.MaxHash, Bytes: q.budget}
			accs, proof := ServiceGetAccountRangeQuery(chain, req)
			out, err := c48CheckAccounts(tr, root, q.origin, common.MaxHash, q.budget, accs, proof)
			if err != nil {
				return fmt.Errorf("account range (root head-%d, origin %x, bytes %d): %v", back, q.origin, q.budget, err)
			}
			count["accounts:"+out]++
		}
		var xMid []byte
		if sx := tr.storage[hx]; len(sx) > 1 {
			xMid = common.CopyBytes(sx[len(sx)/2].hash[:])
		}
		for qi, q := range []struct {
			accounts []common.Hash
			origin   []byte
			budget   uint64
		}{{[]common.Hash{hx}, nil, 1_000_000}, {[]common.Hash{hx}, nil, 100}, {[]common.Hash{hx}, xMid, 1_000_000}, {[]common.Hash{hx, hz}, nil, 1_000_000},
			{[]common.Hash{hz}, nil, 1_000_000}, {[]common.Hash{hz, hx}, nil, 300}, {[]common.Hash{hy}, nil, 1_000_000}} {
			if back > 0 && qi >= 4 {
				break
			}
			req := &GetStorageRangesPacket{ID: 1, Root: root, Accounts: append([]common.Hash{}, q.accounts...), Origin: common.CopyBytes(q.origin), Bytes: q.budget}
			slots, proof := ServiceGetStorageRangesQuery(chain, req)
			out, _, err := c48CheckStorage(tr, q.accounts, q.origin, nil, q.budget, slots, proof)
			if err != nil {
				names := ""
				for _, a := range q.accounts {
					names += map[common.Hash]string{hx: "X", hz: "Z", hy: "Y"}[a]
				}
				return fmt.Errorf("storage ranges (root head-%d, accounts %s, origin %x, bytes %d): %v", back, names, q.origin, q.budget, err)
			}
			count["storage:"+out]++
		}
	}
	return nil
}

func TestVerif_C48_live(t *testing.T) {
	mc.Run(t, "C48", func(r *mc.R) {
		depth := mc.Pick(r, 4, 5)
		r.Rule("per scheme {hash + snapshot, path}: every sequence of `depth` blocks over the per-block operations {empty, X adds a slot, X modifies one slot and deletes (odd blocks) / re-creates (even blocks) another, Z adds a slot and a new account is funded, Y self-destructs} on a chain whose state-layer caps are scaled to 1 (one diff layer above the accumulator / disk layer), so that every imported block flattens the previous block's layer downwards; " +
			"x request schedules {only after the last block, additionally after the last-but-one block (thorough: after block i for every single i), after every block}; a request set = 4 account-range and 7 storage-range requests (X whole / small budget / from the middle, Z, [X,Z], [Z,X] with budget, Y) against the root of the last block and (half of the set) of the block before, judged by the oracle of the static step (truth read from the trie at that root, client verification); distinct = (scheme, ops, schedule)")
		r.Assume("state.TriesInMemory and pathdb.maxDiffLayers are re-valued to 1 for this step by the instrumenter (checked at run time); the unscaled constants are exercised by the static step, which never flattens")
		r.Bound("blocks", depth)
		r.Bound("ops", c48lOps)
		if state.TriesInMemory != 1 {
			r.HarnessError(fmt.Sprintf("state.TriesInMemory is %d, the live step expects the instrumented value 1", state.TriesInMemory))
			return
		}
		nseq := 1
		for i := 0; i < depth; i++ {
			nseq *= len(c48lOps)
		}
		all := []int{}
		for i := 1; i < depth; i++ {
			all = append(all, i)
		}
		schedules := [][]int{nil, {depth - 1}, all}
		if r.Thorough() {
			schedules = [][]int{nil, all}
			for i := 1; i < depth; i++ {
				schedules = append(schedules, []int{i})
			}
		}
		r.Bound("sequences", nseq)
		r.Bound("request_schedules", len(schedules))
		schemes := []string{rawdb.HashScheme, rawdb.PathScheme}
		var tNew, tStop, tIns, tAsk atomic.Int64
		defer func() {
			r.Bound("phase_wall_ms_summed_over_workers", map[string]int64{"new": tNew.Load() / 1e6, "stop": tStop.Load() / 1e6, "insert": tIns.Load() / 1e6, "ask": tAsk.Load() / 1e6})
		}()
		r.Parallel(nseq*len(schemes), func(idx int) {
			scheme := schemes[idx%2]
			x := idx / 2
			ops := make([]int, depth)
			names := make([]string, depth)
			for i := depth - 1; i >= 0; i-- {
				ops[i] = x % len(c48lOps)
				names[i] = c48lOps[ops[i]]
				x /= len(c48lOps)
			}
			gspec := c48lGenesis()
			blocks := c48lBlocks(gspec, ops)
			for _, sched := range schedules {
				if r.Expired() {
					return
				}
				c := c48lCase{"live", scheme, names, append(append([]int{}, sched...), depth)}
				count := map[string]int{}
				flattened, completed := false, false
				dbg := ""
				r.Case(c, func() error {
					options := &core.BlockChainConfig{TrieCleanLimit: 0, TrieDirtyLimit: 0, TrieTimeLimit: 5 * time.Minute, NoPrefetch: true,
						SnapshotLimit: 100, SnapshotWait: true, StateScheme: scheme}
					t0 := time.Now()
					chain, err := core.NewBlockChain(rawdb.NewMemoryDatabase(), gspec, ethash.NewFaker(), options)
					if err != nil {
						return fmt.Errorf("harness: %v", err)
					}
					tNew.Add(int64(time.Since(t0)))
					defer func() { t1 := time.Now(); chain.Stop(); tStop.Add(int64(time.Since(t1))) }()
					ask := map[int]bool{depth: true}
					for _, n := range sched {
						ask[n] = true
					}
					for n := 1; n <= depth; n++ {
						t2 := time.Now()
						if _, err := chain.InsertChain(blocks[n-1 : n]); err != nil {
							return fmt.Errorf("harness: import of block %d: %v", n, err)
						}
						tIns.Add(int64(time.Since(t2)))
						if scheme == rawdb.PathScheme {
							for i := 0; !chain.TrieDB().SnapshotCompleted(); i++ {
								if i > 20000 {
									return fmt.Errorf("harness: pathdb state generation did not complete")
								}
								time.Sleep(time.Millisecond)
							}
						}
						if !ask[n] {
							continue
						}
						roots := []common.Hash{blocks[n-1].Root()}
						if n >= 2 {
							roots = append(roots, blocks[n-2].Root())
						} else {
							roots = append(roots, chain.Genesis().Root())
						}
						t3 := time.Now()
						if err := c48lAsk(chain, roots, count); err != nil {
							return fmt.Errorf("after block %d: %v", n, err)
						}
						tAsk.Add(int64(time.Since(t3)))
					}
					// sanity: the layer caps are really scaled down (genesis is no longer addressable, at most
					// cap+1 = 2 of the block roots are still diff layers / addressable)
					alive := 0
					for n := 0; n < depth; n++ {
						if scheme == rawdb.HashScheme {
							if snap := chain.Snapshots().Snapshot(blocks[n].Root()); snap != nil {
								alive++
							}
						} else if it, err := chain.TrieDB().AccountIterator(blocks[n].Root(), common.Hash{}); err == nil {
							it.Release()
							alive++
						}
					}
					completed = true
					dbg = fmt.Sprintf("%d block roots addressable", alive)
					if scheme == rawdb.HashScheme {
						flattened = chain.Snapshots().Snapshot(chain.Genesis().Root()) == nil && alive <= 3
					} else {
						_, err := chain.TrieDB().AccountIterator(chain.Genesis().Root(), common.Hash{})
						flattened = err != nil && alive <= 2
					}
					return nil
				})
				if len(count) == 0 {
					continue
				}
				if completed && !flattened {
					r.HarnessError(fmt.Sprintf("too many state layers are addressable after the last block (%s, %v, %s): the layer caps were not scaled down", scheme, names, dbg))
					return
				}
				for k, v := range count {
					r.OutcomeN(k, int64(v))
				}
				r.DistinctHash(mc.Hash64(fmt.Sprint(c)))
				if idx%97 == 0 && len(sched) == 1 {
					r.Sample(c)
				}
			}
		})
	})
}
