//go:build verif

package snap

// C47 (BAL catch-up part): applyAccessList / isFetched / isStorageFetched of the snap/2
// syncer are pure functions of (task layout, flat state, block access list). They are
// run over a complete grid and compared with the rule "a change is applied to the
// flat state iff the touched account / slot was already downloaded".

import (
	"bytes"
	"fmt"
	"math/big"
	"sort"
	"testing"

	"github.com/ethereum/go-ethereum/common"
	"github.com/ethereum/go-ethereum/core/rawdb"
	"github.com/ethereum/go-ethereum/core/types"
	"github.com/ethereum/go-ethereum/core/types/bal"
	"github.com/ethereum/go-ethereum/crypto"
	"github.com/ethereum/go-ethereum/ethdb"
	"github.com/ethereum/go-ethereum/internal/verif/mc"
	"github.com/ethereum/go-ethereum/rlp"
	"github.com/holiman/uint256"
)

func c47bAdd(h common.Hash, d int64) common.Hash {
	return common.BigToHash(new(big.Int).Add(h.Big(), big.NewInt(d)))
}

// c47bLayout describes the download progress around one account (hash h, in the account
// range [lo, hi]) and one of its slots (hash s), and what that progress means.
type c47bLayout struct {
	name        string
	acctFetched bool
	slotFetched bool
	// task returns the remaining account task of the range (nil: range completed) and the range end
	task func(lo, hi, h, s common.Hash) (*accountTaskV2, common.Hash)
}

func c47bTask(next, last common.Hash) *accountTaskV2 {
	return &accountTaskV2{Next: next, Last: last, SubTasks: map[common.Hash][]*storageTaskV2{}, stateCompleted: map[common.Hash]struct{}{}}
}

func c47bLayouts() []c47bLayout {
	other := common.HexToHash("0x3333333333333333333333333333333333333333333333333333333333333333")
	sub := func(chunks func(s common.Hash) []*storageTaskV2) func(lo, hi, h, s common.Hash) (*accountTaskV2, common.Hash) {
		return func(lo, hi, h, s common.Hash) (*accountTaskV2, common.Hash) {
			t := c47bTask(lo, hi)
			t.SubTasks[h] = chunks(s)
			return t, hi
		}
	}
	return []c47bLayout{
		{"range-completed", true, true, func(lo, hi, h, s common.Hash) (*accountTaskV2, common.Hash) { return nil, hi }},
		{"next-just-after-account", true, true, func(lo, hi, h, s common.Hash) (*accountTaskV2, common.Hash) { return c47bTask(c47bAdd(h, 1), hi), hi }},
		{"next-at-account", false, false, func(lo, hi, h, s common.Hash) (*accountTaskV2, common.Hash) { return c47bTask(h, hi), hi }},
		{"next-at-range-start", false, false, func(lo, hi, h, s common.Hash) (*accountTaskV2, common.Hash) { return c47bTask(lo, hi), hi }},
		{"account-is-range-end", false, false, func(lo, hi, h, s common.Hash) (*accountTaskV2, common.Hash) { return c47bTask(lo, h), h }},
		{"account-is-range-end-fetched", true, true, func(lo, hi, h, s common.Hash) (*accountTaskV2, common.Hash) { return nil, h }},
		{"storage-completed", false, true, func(lo, hi, h, s common.Hash) (*accountTaskV2, common.Hash) {
			t := c47bTask(lo, hi)
			t.stateCompleted[h] = struct{}{}
			return t, hi
		}},
		{"subtasks-of-other-account-only", false, false, func(lo, hi, h, s common.Hash) (*accountTaskV2, common.Hash) {
			t := c47bTask(lo, hi)
			t.SubTasks[other] = []*storageTaskV2{{Next: common.Hash{}, Last: common.MaxHash}}
			t.stateCompleted[other] = struct{}{}
			return t, hi
		}},
		{"chunk-next-just-after-slot", false, true, sub(func(s common.Hash) []*storageTaskV2 {
			return []*storageTaskV2{{Next: c47bAdd(s, 1), Last: common.MaxHash}}
		})},
		{"chunk-next-at-slot", false, false, sub(func(s common.Hash) []*storageTaskV2 {
			return []*storageTaskV2{{Next: s, Last: common.MaxHash}}
		})},
		{"chunk-untouched", false, false, sub(func(s common.Hash) []*storageTaskV2 {
			return []*storageTaskV2{{Next: common.Hash{}, Last: common.MaxHash}}
		})},
		{"two-chunks-slot-fetched-in-first", false, true, sub(func(s common.Hash) []*storageTaskV2 {
			return []*storageTaskV2{{Next: c47bAdd(s, 1), Last: c47bAdd(s, 5)}, {Next: c47bAdd(s, 6), Last: common.MaxHash}}
		})},
		{"two-chunks-slot-pending-in-second", false, false, sub(func(s common.Hash) []*storageTaskV2 {
			return []*storageTaskV2{{Next: common.BigToHash(big.NewInt(1)), Last: c47bAdd(s, -5)}, {Next: s, Last: common.MaxHash}}
		})},
		{"slot-is-chunk-end-pending", false, false, sub(func(s common.Hash) []*storageTaskV2 {
			return []*storageTaskV2{{Next: s, Last: s}, {Next: c47bAdd(s, 1), Last: common.MaxHash}}
		})},
		{"slot-is-chunk-end-first-chunk-done", false, true, sub(func(s common.Hash) []*storageTaskV2 {
			return []*storageTaskV2{{Next: c47bAdd(s, 1), Last: common.MaxHash}} // the chunk [.., s] completed and was removed
		})},
		{"remaining-chunks-all-below-slot", false, true, sub(func(s common.Hash) []*storageTaskV2 {
			return []*storageTaskV2{{Next: common.BigToHash(big.NewInt(7)), Last: c47bAdd(s, -1)}}
		})},
	}
}

type c47bChange struct {
	Balance []uint64 `json:"balance,omitempty"` // post balances per tx (nil: untouched)
	Nonce   []uint64 `json:"nonce,omitempty"`
	Code    []string `json:"code,omitempty"` // hex codes per tx
	Slot    []uint64 `json:"slot,omitempty"` // post values of the slot per tx
}

func (c c47bChange) touched() bool {
	return len(c.Balance)+len(c.Nonce)+len(c.Code)+len(c.Slot) > 0
}

type c47bPre struct {
	Account string `json:"account"` // absent | plain | coded
	Slot    bool   `json:"slot"`
}

type c47bSide struct {
	Layout string     `json:"layout"`
	Pre    c47bPre    `json:"pre"`
	Change c47bChange `json:"change"`
}

type c47bCase struct {
	A c47bSide `json:"a"`
	B c47bSide `json:"b"`
}

var (
	c47bRoot    = common.HexToHash("0xbeef00000000000000000000000000000000000000000000000000000000beef")
	c47bOldCode = []byte{0x5b, 0x5b}
	c47bSlotKey = common.HexToHash("0xaa")
)

// c47bFlat is the observable database content: flat accounts, flat slots, codes.
type c47bFlat map[string]string

func c47bDump(db ethdb.KeyValueStore) c47bFlat {
	out := c47bFlat{}
	it := db.NewIterator(nil, nil)
	defer it.Release()
	for it.Next() {
		k := it.Key()
		if (len(k) == 33 && (k[0] == 'a' || k[0] == 'c')) || (len(k) == 65 && k[0] == 'o') {
			out[string(k)] = string(it.Value())
		}
	}
	return out
}

func c47bPreAccount(kind string) *types.StateAccount {
	switch kind {
	case "plain":
		return &types.StateAccount{Nonce: 5, Balance: uint256.NewInt(1000), Root: c47bRoot, CodeHash: types.EmptyCodeHash[:]}
	case "coded":
		return &types.StateAccount{Nonce: 1, Balance: uint256.NewInt(0), Root: types.EmptyRootHash, CodeHash: crypto.Keccak256(c47bOldCode)}
	}
	return nil
}

// c47bExpect applies one side of the case to the model flat state.
func c47bExpect(flat c47bFlat, addr common.Address, side c47bSide, lay c47bLayout) {
	if !side.Change.touched() {
		return
	}
	h := crypto.Keccak256Hash(addr[:])
	s := crypto.Keccak256Hash(c47bSlotKey[:])
	ch := side.Change
	if n := len(ch.Slot); n > 0 && lay.slotFetched {
		key := string(append(append([]byte{'o'}, h[:]...), s[:]...))
		if v := ch.Slot[n-1]; v == 0 {
			delete(flat, key)
		} else {
			enc, _ := rlp.EncodeToBytes(new(big.Int).SetUint64(v).Bytes())
			flat[key] = string(enc)
		}
	}
	if !lay.acctFetched {
		return
	}
	key := string(append([]byte{'a'}, h[:]...))
	acc := &types.StateAccount{Balance: new(uint256.Int), Root: types.EmptyRootHash, CodeHash: types.EmptyCodeHash[:]}
	cur, existed := flat[key]
	if existed {
		full, err := types.FullAccount([]byte(cur))
		if err != nil {
			panic(err)
		}
		acc = full
	}
	if n := len(ch.Balance); n > 0 {
		acc.Balance = uint256.NewInt(ch.Balance[n-1])
	}
	if n := len(ch.Nonce); n > 0 {
		acc.Nonce = ch.Nonce[n-1]
	}
	if n := len(ch.Code); n > 0 {
		code := common.FromHex(ch.Code[n-1])
		if len(code) > 0 {
			ck := crypto.Keccak256(code)
			flat[string(append([]byte{'c'}, ck...))] = string(code)
			acc.CodeHash = ck
		} else {
			acc.CodeHash = types.EmptyCodeHash[:]
		}
	}
	empty := acc.Balance.IsZero() && acc.Nonce == 0 && bytes.Equal(acc.CodeHash, types.EmptyCodeHash[:])
	switch {
	case empty && !existed:
	case empty && existed:
		delete(flat, key)
	default:
		flat[key] = string(types.SlimAccountRLP(*acc))
	}
}

func c47bDiff(got, want c47bFlat) string {
	var keys []string
	for k := range got {
		keys = append(keys, k)
	}
	for k := range want {
		if _, ok := got[k]; !ok {
			keys = append(keys, k)
		}
	}
	sort.Strings(keys)
	for _, k := range keys {
		g, gok := got[k]
		w, wok := want[k]
		if gok != wok || g != w {
			return fmt.Sprintf("key %c/%x: database has %x (present=%v), the rule gives %x (present=%v)", k[0], k[1:], g, gok, w, wok)
		}
	}
	return ""
}

func TestVerif_C47_bal(t *testing.T) {
	mc.Run(t, "C47", func(r *mc.R) {
		r.Rule("snap/2 catch-up: 16 download layouts around account A (account range completed / cursor before, at, after the account / account = range end / storage completed / storage chunks with the slot fetched, pending, at a chunk end, beyond all chunks) x 6 flat pre-states x all single-block access lists over {balance, nonce, code, one slot} with 0-2 transactions per field (225) x 4 (thorough 9) (layout, change) combinations for a second account in the other account range; " +
			"applyAccessList result = full comparison of flat accounts, flat slots and codes; distinct = distinct (layout, pre-state, change) of account A")
		r.Assume("reference = 'a change is applied to the flat state iff the account / slot was already downloaded' with the documented post-block (last transaction) values, EIP-161 empty-account rule and stale storage root; the fetched flags per layout are written down by hand, not computed by the code under test")

		// two addresses whose hashes fall into the lower / upper half of the hash space
		var addrA, addrB common.Address
		for i, foundA, foundB := 1, false, false; !(foundA && foundB); i++ {
			a := common.BytesToAddress([]byte{0xba, 0x10, byte(i)})
			if h := crypto.Keccak256Hash(a[:]); h[0] < 0x80 && !foundA {
				addrA, foundA = a, true
			} else if h[0] >= 0x80 && !foundB {
				addrB, foundB = a, true
			}
		}
		hA, hB := crypto.Keccak256Hash(addrA[:]), crypto.Keccak256Hash(addrB[:])
		slotHash := crypto.Keccak256Hash(c47bSlotKey[:])
		mid := common.HexToHash("0x7fffffffffffffffffffffffffffffffffffffffffffffffffffffffffffffff")

		layouts := c47bLayouts()
		byName := map[string]c47bLayout{}
		for _, l := range layouts {
			byName[l.name] = l
		}
		var changes []c47bChange
		for _, b := range [][]uint64{nil, {0}, {7}, {7, 0}, {0, 7}} {
			for _, n := range [][]uint64{nil, {9}, {3, 0}} {
				for _, c := range [][]string{nil, {""}, {"6000"}} {
					for _, s := range [][]uint64{nil, {0}, {5}, {5, 0}, {0, 5}} {
						changes = append(changes, c47bChange{b, n, c, s})
					}
				}
			}
		}
		var pres []c47bPre
		for _, a := range []string{"absent", "plain", "coded"} {
			for _, s := range []bool{false, true} {
				pres = append(pres, c47bPre{a, s})
			}
		}
		var sidesB []c47bSide
		bLayouts := mc.Pick(r, []string{"range-completed", "next-at-range-start"}, []string{"range-completed", "next-at-range-start", "chunk-next-just-after-slot"})
		bChanges := mc.Pick(r, []c47bChange{{}, {Balance: []uint64{7}, Slot: []uint64{5}}}, []c47bChange{{}, {Balance: []uint64{7}, Slot: []uint64{5}}, {Nonce: []uint64{9}}})
		for _, l := range bLayouts {
			for _, ch := range bChanges {
				sidesB = append(sidesB, c47bSide{l, c47bPre{"plain", true}, ch})
			}
		}
		r.Bound("layouts", len(layouts))
		r.Bound("changes_per_account", len(changes))
		r.Bound("pre_states", len(pres))
		r.Bound("second_account_combinations", len(sidesB))

		build := func(c c47bCase) (*syncerV2, ethdb.Database, *bal.BlockAccessList, error) {
			db := rawdb.NewMemoryDatabase()
			s := newSyncerV2(db, rawdb.HashScheme)
			la, lb := byName[c.A.Layout], byName[c.B.Layout]
			ta, endA := la.task(common.Hash{}, mid, hA, slotHash)
			tb, _ := lb.task(c47bAdd(endA, 1), common.MaxHash, hB, slotHash)
			if ta != nil {
				s.tasks = append(s.tasks, ta)
			}
			if tb != nil {
				s.tasks = append(s.tasks, tb)
			}
			cb := bal.NewConstructionBlockAccessList()
			for _, x := range []struct {
				addr common.Address
				h    common.Hash
				side c47bSide
			}{{addrA, hA, c.A}, {addrB, hB, c.B}} {
				if acc := c47bPreAccount(x.side.Pre.Account); acc != nil {
					rawdb.WriteAccountSnapshot(db, x.h, types.SlimAccountRLP(*acc))
					if x.side.Pre.Account == "coded" {
						rawdb.WriteCode(db, crypto.Keccak256Hash(c47bOldCode), c47bOldCode)
					}
				}
				if x.side.Pre.Slot {
					rawdb.WriteStorageSnapshot(db, x.h, slotHash, []byte{0x01})
				}
				for i, v := range x.side.Change.Balance {
					cb.BalanceChange(uint32(i), x.addr, uint256.NewInt(v))
				}
				for i, v := range x.side.Change.Nonce {
					cb.NonceChange(x.addr, uint32(i), v)
				}
				for i, v := range x.side.Change.Code {
					cb.CodeChange(x.addr, uint32(i), common.FromHex(v))
				}
				for i, v := range x.side.Change.Slot {
					cb.StorageWrite(uint32(i), x.addr, c47bSlotKey, common.BigToHash(new(big.Int).SetUint64(v)))
				}
			}
			var buf bytes.Buffer
			if err := cb.EncodeRLP(&buf); err != nil {
				return nil, nil, nil, err
			}
			var b bal.BlockAccessList
			if err := rlp.DecodeBytes(buf.Bytes(), &b); err != nil {
				return nil, nil, nil, err
			}
			return s, db, &b, nil
		}

		type shard struct {
			layout c47bLayout
			pre    c47bPre
		}
		var shards []shard
		for _, l := range layouts {
			for _, p := range pres {
				shards = append(shards, shard{l, p})
			}
		}
		r.Parallel(len(shards), func(i int) {
			sh := shards[i]
			for ci, ch := range changes {
				for _, sb := range sidesB {
					c := c47bCase{c47bSide{sh.layout.name, sh.pre, ch}, sb}
					r.Case(c, func() error {
						s, db, b, err := build(c)
						if err != nil {
							return fmt.Errorf("harness: cannot build the access list: %v", err)
						}
						// the two predicates
						for _, x := range []struct {
							h   common.Hash
							lay c47bLayout
						}{{hA, sh.layout}, {hB, byName[sb.Layout]}} {
							if got := s.isFetched(x.h); got != x.lay.acctFetched {
								return fmt.Errorf("isFetched(%x) = %v in layout %q, want %v", x.h, got, x.lay.name, x.lay.acctFetched)
							}
							if got := s.isStorageFetched(x.h, slotHash); got != x.lay.slotFetched {
								return fmt.Errorf("isStorageFetched(%x, %x) = %v in layout %q, want %v", x.h, slotHash, got, x.lay.name, x.lay.slotFetched)
							}
						}
						want := c47bDump(db)
						c47bExpect(want, addrA, c.A, sh.layout)
						c47bExpect(want, addrB, c.B, byName[sb.Layout])
						batch := db.NewBatch()
						if err := s.applyAccessList(b, batch); err != nil {
							return fmt.Errorf("applyAccessList: %v", err)
						}
						if err := batch.Write(); err != nil {
							return err
						}
						if d := c47bDiff(c47bDump(db), want); d != "" {
							return fmt.Errorf("flat state after applyAccessList differs from 'apply iff fetched': %s", d)
						}
						return nil
					})
				}
				r.DistinctHash(mc.Hash64(fmt.Sprintf("%s|%v|%d", sh.layout.name, sh.pre, ci)))
				if ch.touched() {
					r.Outcome(fmt.Sprintf("acct-fetched=%v,slot-fetched=%v", sh.layout.acctFetched, sh.layout.slotFetched))
				}
			}
			if i%7 == 0 {
				r.Sample(c47bCase{c47bSide{sh.layout.name, sh.pre, changes[len(changes)/2]}, sidesB[1]})
			}
		})
	})
}
