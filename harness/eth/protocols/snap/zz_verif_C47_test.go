//go:build verif

package snap

// C47 - snap sync (snap/1 syncer, sync.go) reconstructs exactly the target state
// under any peer behaviour.
//
// Deviation-bounded enumeration: one peer ("A") serves a tiny target state through
// the package's in-memory testPeer; the answer to its j-th request of a kind
// (account range, storage ranges, byte codes, trie-node heal) is replaced by one of
// a fixed set of non-honest behaviours. All runs with 0, 1 and 2 deviations are
// executed. Goroutines of the syncer run free; the verdict only looks at the
// database after Sync returned.

import (
	"bytes"
	"errors"
	"fmt"
	"runtime/debug"
	"sort"
	"strings"
	"sync"
	"sync/atomic"
	"testing"
	"time"

	"github.com/ethereum/go-ethereum/common"
	"github.com/ethereum/go-ethereum/core/rawdb"
	"github.com/ethereum/go-ethereum/core/types"
	"github.com/ethereum/go-ethereum/crypto"
	"github.com/ethereum/go-ethereum/ethdb"
	"github.com/ethereum/go-ethereum/internal/verif/mc"
	"github.com/ethereum/go-ethereum/rlp"
	"github.com/ethereum/go-ethereum/trie"
	"github.com/ethereum/go-ethereum/trie/trienode"
	"github.com/ethereum/go-ethereum/triedb"
	"github.com/holiman/uint256"
)

type c47Node struct {
	hash common.Hash
	blob []byte
}

type c47State struct {
	scheme   string
	root     common.Hash
	accTrie  *trie.Trie
	accElems []*kv
	stTries  map[common.Hash]*trie.Trie
	stElems  map[common.Hash][]*kv
	codes    map[common.Hash][]byte
	slim     map[common.Hash][]byte         // account hash -> slim RLP
	accNodes map[string]c47Node             // hex path -> node
	stNodes  map[common.Hash]map[string]c47Node // owner -> hex path -> node
}

var (
	c47CodeA = []byte{0x60, 0x0a, 0x60, 0x0b, 0x01, 0x00}
	c47CodeB = bytes.Repeat([]byte{0x5b}, 40)
)

type c47AccSpec struct {
	key     common.Hash
	slots   map[uint64]uint64 // slot index -> value (stored as the package's makeStorageTrieWithSeed does)
	code    []byte
	balance uint64
	nonce   uint64
}

func c47Slots(n, seed uint64) map[uint64]uint64 {
	m := map[uint64]uint64{}
	for i := uint64(1); i <= n; i++ {
		m[i] = i + seed
	}
	return m
}

// The target: 5 accounts in 4 account ranges (accountConcurrency = 4); a 40-slot contract
// (chunked by the 500-byte storage responses of the honest peer), two small contracts in
// one range (served by one multi-account storage request), shared code, a plain account,
// a contract with storage but no code.
func c47Specs() []c47AccSpec {
	return []c47AccSpec{
		{common.HexToHash("0x05a1000000000000000000000000000000000000000000000000000000000001"), c47Slots(40, 1), c47CodeA, 1000, 0},
		{common.HexToHash("0x4a00000000000000000000000000000000000000000000000000000000000002"), c47Slots(3, 2), c47CodeA, 1001, 1},
		{common.HexToHash("0x4b00000000000000000000000000000000000000000000000000000000000003"), c47Slots(4, 5), c47CodeB, 1002, 2},
		{common.HexToHash("0x9c00000000000000000000000000000000000000000000000000000000000004"), nil, nil, 1003, 3},
		{common.HexToHash("0xf300000000000000000000000000000000000000000000000000000000000005"), c47Slots(5, 3), nil, 1004, 4},
	}
}

// c47MakeStorage builds a storage trie like the package's makeStorageTrieWithSeed, from explicit slots.
func c47MakeStorage(owner common.Hash, slots map[uint64]uint64, db *triedb.Database) (common.Hash, *trienode.NodeSet, []*kv) {
	tr, _ := trie.New(trie.StorageTrieID(types.EmptyRootHash, owner, types.EmptyRootHash), db)
	var entries []*kv
	for idx, val := range slots {
		slotValue := key32(val)
		enc, _ := rlp.EncodeToBytes(common.TrimLeftZeroes(slotValue[:]))
		key := crypto.Keccak256Hash(key32(idx))
		elem := &kv{common.CopyBytes(key[:]), enc}
		tr.MustUpdate(elem.k, elem.v)
		entries = append(entries, elem)
	}
	sort.Slice(entries, func(i, j int) bool { return bytes.Compare(entries[i].k, entries[j].k) < 0 })
	root, nodes := tr.Commit(false)
	return root, nodes, entries
}

func c47ReadNodes(tr *trie.Trie) map[string]c47Node {
	out := map[string]c47Node{}
	it := tr.MustNodeIterator(nil)
	for it.Next(true) {
		if it.Leaf() || it.Hash() == (common.Hash{}) {
			continue
		}
		out[string(it.Path())] = c47Node{it.Hash(), common.CopyBytes(it.NodeBlob())}
	}
	if it.Error() != nil {
		panic(it.Error())
	}
	return out
}

func c47MakeState(scheme string) *c47State { return c47MakeStateOf(scheme, c47Specs()) }

func c47MakeStateOf(scheme string, specs []c47AccSpec) *c47State {
	var (
		db      = triedb.NewDatabase(rawdb.NewMemoryDatabase(), newDbConfig(scheme))
		accTrie = trie.NewEmpty(db)
		st      = &c47State{scheme: scheme, stTries: map[common.Hash]*trie.Trie{}, stElems: map[common.Hash][]*kv{}, codes: map[common.Hash][]byte{},
			slim: map[common.Hash][]byte{}, stNodes: map[common.Hash]map[string]c47Node{}}
		roots = map[common.Hash]common.Hash{}
		nodes = trienode.NewMergedNodeSet()
	)
	for _, sp := range specs {
		stRoot := types.EmptyRootHash
		if len(sp.slots) > 0 {
			r, stNodes, entries := c47MakeStorage(sp.key, sp.slots, db)
			nodes.Merge(stNodes)
			stRoot = r
			st.stElems[sp.key] = entries
		}
		roots[sp.key] = stRoot
		codeHash := types.EmptyCodeHash.Bytes()
		if sp.code != nil {
			h := crypto.Keccak256Hash(sp.code)
			codeHash = h.Bytes()
			st.codes[h] = sp.code
		}
		acc := types.StateAccount{Nonce: sp.nonce, Balance: uint256.NewInt(sp.balance), Root: stRoot, CodeHash: codeHash}
		value, _ := rlp.EncodeToBytes(&acc)
		st.slim[sp.key] = types.SlimAccountRLP(acc)
		elem := &kv{common.CopyBytes(sp.key[:]), value}
		accTrie.MustUpdate(elem.k, elem.v)
		st.accElems = append(st.accElems, elem)
	}
	sort.Slice(st.accElems, func(i, j int) bool { return bytes.Compare(st.accElems[i].k, st.accElems[j].k) < 0 })
	root, set := accTrie.Commit(true)
	nodes.Merge(set)
	db.Update(root, types.EmptyRootHash, 0, nodes, triedb.NewStateSet())
	st.root = root
	var err error
	if st.accTrie, err = trie.New(trie.StateTrieID(root), db); err != nil {
		panic(err)
	}
	st.accNodes = c47ReadNodes(st.accTrie)
	for k, r := range roots {
		if r == types.EmptyRootHash {
			continue
		}
		tr, err := trie.New(trie.StorageTrieID(root, k, r), db)
		if err != nil {
			panic(err)
		}
		st.stTries[k] = tr
		st.stNodes[k] = c47ReadNodes(tr)
	}
	return st
}

// ---- deviating peer ------------------------------------------------------

const (
	c47Account = "account"
	c47Storage = "storage"
	c47Code    = "code"
	c47Heal    = "heal"
)

type c47Dev struct {
	Kind  string `json:"kind"`
	Index int    `json:"index"`
	Beh   string `json:"beh"`
}

var c47Behaviours = map[string][]string{
	c47Account: {"truncate", "empty", "drop", "proofcut", "corrupt", "staletrunc"},
	c47Storage: {"truncate", "empty", "drop", "proofcut", "corrupt", "staletrunc"},
	c47Code:    {"truncate", "empty", "drop", "corrupt"},
	c47Heal:    {"truncate", "empty", "drop", "corrupt"},
}

type c47Run struct {
	st      *c47State
	syncer  *syncer
	plan    []c47Dev
	t       *testing.T
	mu      sync.Mutex // serialises all peer handlers (tries are not thread safe)
	ctr     map[string]*atomic.Int64
	done    atomic.Int64 // finished handler invocations
	applied []string
	db      *c47DB
	reserve atomic.Int64
	peers   []*testPeer

	// interruption (two-cycle family): requests matching withhold are never answered; the
	// cycle is cancelled right after the cancelAfter-th delivered answer, or (fallback, so that
	// a cycle that can make no further progress ends) after 4 withheld requests in a row.
	withhold    func(kind string, first common.Hash) bool
	cancelAfter int
	deliveries  int
	dropsInRow  int
	stallCancel bool
	term        func()
}

// withheld reports (and counts) a request the peer never answers. Called under run.mu.
func (run *c47Run) withheld(kind string, first common.Hash) bool {
	if run.withhold == nil || !run.withhold(kind, first) {
		return false
	}
	run.dropsInRow++
	if run.dropsInRow >= 4 && run.term != nil {
		run.stallCancel = true
		run.term()
	}
	return true
}

// delivered counts an answer handed to the syncer. Called under run.mu.
func (run *c47Run) delivered() {
	run.deliveries++
	run.dropsInRow = 0
	if run.cancelAfter > 0 && run.deliveries == run.cancelAfter && run.term != nil {
		run.term()
	}
}

func (run *c47Run) newPeer(id string, bad bool) *testPeer {
	p := newTestPeer(id, run.t, func() {})
	p.accountTrie = run.st.accTrie.Copy()
	p.accountValues = run.st.accElems
	p.setStorageTries(run.st.stTries)
	p.storageValues = run.st.stElems
	p.accountRequestHandler = func(t *testPeer, id uint64, root, origin, limit common.Hash, cap int) error {
		run.account(t, bad, id, root, origin, limit, cap)
		return nil
	}
	p.storageRequestHandler = func(t *testPeer, id uint64, root common.Hash, accounts []common.Hash, origin, limit []byte, max int) error {
		run.storage(t, bad, id, root, accounts, origin, limit, max)
		return nil
	}
	p.codeRequestHandler = func(t *testPeer, id uint64, hashes []common.Hash, max int) error {
		run.code(t, bad, id, hashes)
		return nil
	}
	p.trieRequestHandler = func(t *testPeer, id uint64, root common.Hash, paths []TrieNodePathSet, cap int) error {
		run.heal(t, bad, id, paths)
		return nil
	}
	p.remote = run.syncer
	run.mu.Lock()
	run.peers = append(run.peers, p)
	run.mu.Unlock()
	return p
}

// behaviour returns the deviation planned for the next request of this kind ("" = honest).
func (run *c47Run) behaviour(bad bool, kind string) string {
	if !bad {
		return ""
	}
	idx := int(run.ctr[kind].Add(1) - 1)
	for _, d := range run.plan {
		if d.Kind == kind && d.Index == idx {
			run.applied = append(run.applied, fmt.Sprintf("%s#%d:%s", kind, idx, d.Beh))
			return d.Beh
		}
	}
	return ""
}

// beforeEmpty keeps the sync live: an empty answer marks the peer as stateless for the
// rest of the cycle, so an honest reserve peer joins first.
func (run *c47Run) beforeEmpty() {
	n := run.reserve.Add(1)
	go func() {
		p := run.newPeer(fmt.Sprintf("reserve-%d", n), false)
		run.syncer.Register(p)
	}()
}

func c47Flip(b []byte) []byte {
	out := common.CopyBytes(b)
	out[len(out)-1] ^= 0x01
	return out
}

func (run *c47Run) account(t *testPeer, bad bool, id uint64, root, origin, limit common.Hash, cap int) {
	run.mu.Lock()
	defer run.mu.Unlock()
	defer run.done.Add(1)
	if run.withheld(c47Account, origin) {
		return
	}
	beh := run.behaviour(bad, c47Account)
	if beh == "truncate" {
		cap = 1
	}
	keys, vals, proofs := createAccountRequestResponse(t, root, origin, limit, cap)
	invalid := false
	switch beh {
	case "drop":
		return
	case "empty":
		run.beforeEmpty()
		keys, vals, proofs = nil, nil, nil
	case "proofcut":
		if len(proofs) > 0 {
			proofs, invalid = proofs[1:], true
		}
	case "corrupt":
		if len(vals) > 0 {
			vals = append([][]byte{}, vals...)
			acc := new(types.StateAccount)
			rlp.DecodeBytes(vals[0], acc)
			acc.Balance = uint256.NewInt(666)
			vals[0], _ = rlp.EncodeToBytes(acc)
			invalid = true
		}
	case "staletrunc": // last item withheld, proof still the one for the full answer
		if len(keys) > 1 {
			keys, vals, invalid = keys[:len(keys)-1], vals[:len(vals)-1], true
		}
	}
	run.syncer.OnAccounts(t, id, keys, vals, proofs)
	_ = invalid
	run.delivered()
}

func (run *c47Run) storage(t *testPeer, bad bool, id uint64, root common.Hash, accounts []common.Hash, origin, limit []byte, max int) {
	run.mu.Lock()
	defer run.mu.Unlock()
	defer run.done.Add(1)
	if run.withheld(c47Storage, accounts[0]) {
		return
	}
	beh := run.behaviour(bad, c47Storage)
	max = 500 // the honest peer serves small storage responses, so the 40-slot contract is chunked
	if beh == "truncate" {
		max = 1
	}
	hashes, slots, proofs := createStorageRequestResponse(t, root, accounts, origin, limit, max)
	invalid := false
	switch beh {
	case "drop":
		return
	case "empty":
		run.beforeEmpty()
		hashes, slots, proofs = nil, nil, nil
	case "proofcut":
		if len(proofs) > 0 {
			proofs, invalid = proofs[1:], true
		} else if n := len(hashes); n > 0 && len(hashes[n-1]) > 1 { // complete answer: make it incomplete instead
			hashes[n-1], slots[n-1], invalid = hashes[n-1][1:], slots[n-1][1:], true
		}
	case "corrupt":
		if len(slots) > 0 && len(slots[0]) > 0 { // a slot of the first set (a complete, proof-less set in multi-account answers)
			slots[0] = append([][]byte{}, slots[0]...)
			slots[0][0] = c47Flip(slots[0][0])
			invalid = true
		}
	case "staletrunc":
		if n := len(hashes); n > 0 && len(hashes[n-1]) > 1 {
			m := len(hashes[n-1])
			hashes[n-1], slots[n-1], invalid = hashes[n-1][:m-1], slots[n-1][:m-1], true
		}
	}
	run.syncer.OnStorage(t, id, hashes, slots, proofs)
	_ = invalid
	run.delivered()
}

func (run *c47Run) code(t *testPeer, bad bool, id uint64, hashes []common.Hash) {
	run.mu.Lock()
	defer run.mu.Unlock()
	defer run.done.Add(1)
	if run.withheld(c47Code, hashes[0]) {
		return
	}
	beh := run.behaviour(bad, c47Code)
	var codes [][]byte
	for _, h := range hashes {
		codes = append(codes, run.st.codes[h])
	}
	invalid := false
	switch beh {
	case "drop":
		return
	case "empty":
		run.beforeEmpty()
		codes = nil
	case "truncate":
		codes = codes[:1]
	case "corrupt":
		codes[0], invalid = c47Flip(codes[0]), true
	}
	run.syncer.OnByteCodes(t, id, codes)
	_ = invalid
	run.delivered()
}

func (run *c47Run) heal(t *testPeer, bad bool, id uint64, paths []TrieNodePathSet) {
	run.mu.Lock()
	defer run.mu.Unlock()
	defer run.done.Add(1)
	if run.withheld(c47Heal, common.Hash{}) {
		return
	}
	beh := run.behaviour(bad, c47Heal)
	var nodes [][]byte
	for _, pathset := range paths {
		switch len(pathset) {
		case 1:
			if blob, _, err := t.accountTrie.GetNode(pathset[0]); err == nil {
				nodes = append(nodes, blob)
			}
		default:
			if tr := t.storageTries[common.BytesToHash(pathset[0])]; tr != nil {
				for _, path := range pathset[1:] {
					if blob, _, err := tr.GetNode(path); err == nil {
						nodes = append(nodes, blob)
					}
				}
			}
		}
	}
	invalid := false
	switch beh {
	case "drop":
		return
	case "empty":
		run.beforeEmpty()
		nodes = nil
	case "truncate":
		if len(nodes) > 1 {
			nodes = nodes[:1]
		}
	case "corrupt":
		if len(nodes) > 0 && len(nodes[0]) > 0 {
			nodes[0], invalid = c47Flip(nodes[0]), true
		}
	}
	run.syncer.OnTrieNodes(t, id, nodes)
	_ = invalid
	run.delivered()
}

// ---- oracle ----------------------------------------------------------------

// c47DB wraps the syncer's key-value store: every flat-state, code and hash-keyed trie
// node write is compared with the target at the moment it is issued ("unverified data is
// never stored", independent of whether healing would repair it later).
type c47DB struct {
	ethdb.KeyValueStore
	st  *c47State
	bad atomic.Pointer[string]
	// looseRoot: flat accounts are compared without their storage root (snap/2 catch-up
	// deliberately leaves the root stale until the trie generation rewrites it).
	looseRoot bool
}

func c47SameButRoot(a, b []byte) bool {
	x, err1 := types.FullAccount(a)
	y, err2 := types.FullAccount(b)
	return err1 == nil && err2 == nil && x.Nonce == y.Nonce && x.Balance.Eq(y.Balance) && bytes.Equal(x.CodeHash, y.CodeHash)
}

type c47Batch struct {
	ethdb.Batch
	d *c47DB
}

func (d *c47DB) check(k, v []byte) {
	var msg string
	switch {
	case len(k) == 33 && k[0] == rawdb.SnapshotAccountPrefix[0]:
		h := common.BytesToHash(k[1:])
		if want, ok := d.st.slim[h]; !ok || !(bytes.Equal(want, v) || (d.looseRoot && c47SameButRoot(want, v))) {
			msg = fmt.Sprintf("flat account %x <- %x, target has %x", h, v, want)
		}
	case len(k) == 65 && k[0] == rawdb.SnapshotStoragePrefix[0]:
		acc, slot := common.BytesToHash(k[1:33]), k[33:]
		msg = fmt.Sprintf("flat storage %x/%x <- %x, target has no such slot", acc, slot, v)
		for _, e := range d.st.stElems[acc] {
			if bytes.Equal(e.k, slot) {
				msg = ""
				if !bytes.Equal(e.v, v) {
					msg = fmt.Sprintf("flat storage %x/%x <- %x, target has %x", acc, slot, v, e.v)
				}
				break
			}
		}
	case len(k) == 33 && k[0] == rawdb.CodePrefix[0]:
		if crypto.Keccak256Hash(v) != common.BytesToHash(k[1:]) {
			msg = fmt.Sprintf("code %x <- %d bytes hashing to %x", k[1:], len(v), crypto.Keccak256Hash(v))
		}
	case len(k) == 32 && d.st.scheme == rawdb.HashScheme:
		if crypto.Keccak256Hash(v) != common.BytesToHash(k) {
			msg = fmt.Sprintf("hash-keyed trie node %x <- %d bytes hashing to %x", k, len(v), crypto.Keccak256Hash(v))
		}
	}
	if msg != "" {
		d.bad.CompareAndSwap(nil, &msg)
	}
}

func (d *c47DB) Put(k, v []byte) error { d.check(k, v); return d.KeyValueStore.Put(k, v) }
func (d *c47DB) NewBatch() ethdb.Batch { return &c47Batch{d.KeyValueStore.NewBatch(), d} }
func (d *c47DB) NewBatchWithSize(n int) ethdb.Batch {
	return &c47Batch{d.KeyValueStore.NewBatchWithSize(n), d}
}
func (b *c47Batch) Put(k, v []byte) error { b.d.check(k, v); return b.Batch.Put(k, v) }

func c47Iterate(db ethdb.KeyValueStore, prefix []byte, keyLen int, fn func(k, v []byte)) {
	it := db.NewIterator(prefix, nil)
	defer it.Release()
	for it.Next() {
		if len(it.Key()) == keyLen {
			fn(common.CopyBytes(it.Key()), common.CopyBytes(it.Value()))
		}
	}
}

// c47CheckGenuine: whatever is in the flat state / code store is data of the target
// (holds at any time: unverified or corrupted data is never stored).
func c47CheckGenuine(db ethdb.KeyValueStore, st *c47State) error {
	var err error
	c47Iterate(db, rawdb.SnapshotAccountPrefix, 33, func(k, v []byte) {
		h := common.BytesToHash(k[1:])
		if want, ok := st.slim[h]; !ok || !bytes.Equal(want, v) {
			if err == nil {
				err = fmt.Errorf("flat account %x holds %x, target has %x", h, v, want)
			}
		}
	})
	c47Iterate(db, rawdb.SnapshotStoragePrefix, 65, func(k, v []byte) {
		acc, slot := common.BytesToHash(k[1:33]), k[33:]
		for _, e := range st.stElems[acc] {
			if bytes.Equal(e.k, slot) {
				if !bytes.Equal(e.v, v) && err == nil {
					err = fmt.Errorf("flat storage %x/%x holds %x, target has %x", acc, slot, v, e.v)
				}
				return
			}
		}
		if err == nil {
			err = fmt.Errorf("flat storage %x/%x holds %x, target has no such slot", acc, slot, v)
		}
	})
	c47Iterate(db, rawdb.CodePrefix, 33, func(k, v []byte) {
		if crypto.Keccak256Hash(v) != common.BytesToHash(k[1:]) && err == nil {
			err = fmt.Errorf("code entry %x holds %d bytes hashing to %x", k[1:], len(v), crypto.Keccak256Hash(v))
		}
	})
	return err
}

// c47CheckComplete: Sync returned nil, so flat state, code and trie equal the target exactly.
func c47CheckComplete(db ethdb.KeyValueStore, st *c47State) error {
	return c47CheckCompleteOpt(db, st, false)
}

// c47CheckCompleteOpt: extraCodesOK tolerates code blobs that the target does not reference
// (content-addressed leftovers of an earlier pivot), as long as they hash to their key.
func c47CheckCompleteOpt(db ethdb.KeyValueStore, st *c47State, extraCodesOK bool) error {
	if err := c47CheckGenuine(db, st); err != nil {
		return err
	}
	// flat state: complete (genuineness was checked above, so counting suffices)
	nAcc, nSlot, nCode := 0, 0, 0
	c47Iterate(db, rawdb.SnapshotAccountPrefix, 33, func(k, v []byte) { nAcc++ })
	c47Iterate(db, rawdb.SnapshotStoragePrefix, 65, func(k, v []byte) { nSlot++ })
	wantSlots := 0
	for _, e := range st.stElems {
		wantSlots += len(e)
	}
	if nAcc != len(st.accElems) {
		return fmt.Errorf("flat state has %d accounts, target %d", nAcc, len(st.accElems))
	}
	if nSlot != wantSlots {
		return fmt.Errorf("flat state has %d storage slots, target %d", nSlot, wantSlots)
	}
	for h, code := range st.codes {
		if got := rawdb.ReadCode(db, h); !bytes.Equal(got, code) {
			return fmt.Errorf("code %x: stored %x, target %x", h, got, code)
		}
	}
	c47Iterate(db, rawdb.CodePrefix, 33, func(k, v []byte) { nCode++ })
	if nCode != len(st.codes) && !extraCodesOK {
		return fmt.Errorf("%d code entries stored, target references %d", nCode, len(st.codes))
	}
	if err := c47CheckTries(db, st); err != nil {
		return err
	}
	return c47CheckPathStore(db, st)
}

// c47CheckTries: the account trie and every storage trie iterate completely from the root
// through a fresh trie database over the synced key-value store and equal the target leaf by leaf.
func c47CheckTries(db ethdb.KeyValueStore, st *c47State) error {
	tdb := triedb.NewDatabase(rawdb.NewDatabase(db), newDbConfig(st.scheme))
	accTrie, err := trie.New(trie.StateTrieID(st.root), tdb)
	if err != nil {
		return fmt.Errorf("account trie root not available: %v", err)
	}
	it := trie.NewIterator(accTrie.MustNodeIterator(nil))
	i := 0
	for it.Next() {
		if i >= len(st.accElems) || !bytes.Equal(it.Key, st.accElems[i].k) || !bytes.Equal(it.Value, st.accElems[i].v) {
			return fmt.Errorf("account trie leaf #%d is %x=%x, differs from the target", i, it.Key, it.Value)
		}
		acc := new(types.StateAccount)
		if err := rlp.DecodeBytes(it.Value, acc); err != nil {
			return err
		}
		if acc.Root != types.EmptyRootHash {
			owner := common.BytesToHash(it.Key)
			stTrie, err := trie.New(trie.StorageTrieID(st.root, owner, acc.Root), tdb)
			if err != nil {
				return fmt.Errorf("storage trie of %x not available: %v", owner, err)
			}
			sit := trie.NewIterator(stTrie.MustNodeIterator(nil))
			want := st.stElems[owner]
			j := 0
			for sit.Next() {
				if j >= len(want) || !bytes.Equal(sit.Key, want[j].k) || !bytes.Equal(sit.Value, want[j].v) {
					return fmt.Errorf("storage trie %x leaf #%d is %x=%x, differs from the target", owner, j, sit.Key, sit.Value)
				}
				j++
			}
			if sit.Err != nil {
				return fmt.Errorf("storage trie %x is incomplete: %v", owner, sit.Err)
			}
			if j != len(want) {
				return fmt.Errorf("storage trie %x has %d leaves, target %d", owner, j, len(want))
			}
		}
		i++
	}
	if it.Err != nil {
		return fmt.Errorf("account trie is incomplete: %v", it.Err)
	}
	if i != len(st.accElems) {
		return fmt.Errorf("account trie has %d leaves, target %d", i, len(st.accElems))
	}
	return nil
}

// c47CheckPathStore (path scheme): the node store is keyed by path, so the stored nodes must be
// exactly the nodes of the target tries (no stray nodes).
func c47CheckPathStore(db ethdb.KeyValueStore, st *c47State) error {
	if st.scheme == rawdb.PathScheme {
		var perr error
		seenA, seenS := 0, 0
		it := db.NewIterator(nil, nil)
		defer it.Release()
		for it.Next() {
			k, v := it.Key(), it.Value()
			if ok, path := rawdb.ResolveAccountTrieNodeKey(k); ok {
				n, has := st.accNodes[string(path)]
				if (!has || crypto.Keccak256Hash(v) != n.hash) && perr == nil {
					perr = fmt.Errorf("account trie node stored at path %x (hash %x) is not a node of the target trie", path, crypto.Keccak256Hash(v))
				}
				seenA++
			} else if ok, owner, path := rawdb.ResolveStorageTrieNode(k); ok {
				n, has := st.stNodes[owner][string(path)]
				if (!has || crypto.Keccak256Hash(v) != n.hash) && perr == nil {
					perr = fmt.Errorf("storage trie node stored at %x path %x (hash %x) is not a node of the target trie", owner, path, crypto.Keccak256Hash(v))
				}
				seenS++
			}
		}
		if perr != nil {
			return perr
		}
		wantS := 0
		for _, m := range st.stNodes {
			wantS += len(m)
		}
		if seenA != len(st.accNodes) || seenS != wantS {
			return fmt.Errorf("path store has %d account / %d storage nodes, target tries have %d / %d", seenA, seenS, len(st.accNodes), wantS)
		}
	}
	return nil
}

// ---- driver ----------------------------------------------------------------

type c47Case struct {
	Scheme string   `json:"scheme"`
	Plan   []c47Dev `json:"plan"`
}

var errC47Panic = errors.New("panic inside Sync")

// c47Opts describes one sync cycle.
type c47Opts struct {
	plan        []c47Dev
	withhold    func(kind string, first common.Hash) bool
	cancelAfter int
}

type c47CycleResult struct {
	err         error // result of Sync
	hook        error // foreign data written during the cycle
	stalled     bool  // cancelled by the watchdog
	stallCancel bool  // cancelled because only withheld requests were left
	deliveries  int
	applied     []string
	counts      map[string]int64
}

// c47Cycle runs one Sync call of a fresh syncer over the key-value store kv against a peer serving st.
func c47Cycle(t *testing.T, kv ethdb.KeyValueStore, st *c47State, o c47Opts) c47CycleResult {
	run := &c47Run{st: st, plan: o.plan, t: t, ctr: map[string]*atomic.Int64{}, withhold: o.withhold, cancelAfter: o.cancelAfter}
	for k := range c47Behaviours {
		run.ctr[k] = new(atomic.Int64)
	}
	run.db = &c47DB{KeyValueStore: kv, st: st}
	run.syncer = newSyncer(run.db, st.scheme)
	run.syncer.rates.OverrideTTLLimit = 30 * time.Millisecond // request timeout (the package's test knob); only drives retries
	cancel := make(chan struct{})
	var once sync.Once
	run.term = func() { once.Do(func() { close(cancel) }) }
	run.syncer.Register(run.newPeer("A", true))

	result := make(chan error, 1)
	go func() {
		defer func() {
			if p := recover(); p != nil {
				result <- fmt.Errorf("%w: %v\n%s", errC47Panic, p, debug.Stack())
			}
		}()
		result <- run.syncer.Sync(st.root, cancel)
	}()
	var res c47CycleResult
	select {
	case res.err = <-result:
	case <-time.After(60 * time.Second): // watchdog: stops the run, never decides a verdict
		res.stalled = true
		run.term()
		res.err = <-result
	}
	// Sync is over (returned, was cancelled or panicked): release every answer still parked on the
	// syncer's delivery channels, then wait until all handler goroutines of the test peers have finished.
	run.term()
	for {
		var started int64
		run.mu.Lock()
		for _, p := range run.peers {
			started += p.nAccountRequests.Load() + p.nStorageRequests.Load() + p.nBytecodeRequests.Load() + p.nTrienodeRequests.Load()
		}
		run.mu.Unlock()
		if run.done.Load() >= started {
			break
		}
		time.Sleep(200 * time.Microsecond)
	}
	run.mu.Lock()
	res.applied = append([]string{}, run.applied...)
	res.counts = map[string]int64{}
	for k, c := range run.ctr {
		res.counts[k] = c.Load()
	}
	res.deliveries, res.stallCancel = run.deliveries, run.stallCancel
	run.mu.Unlock()
	if bad := run.db.bad.Load(); bad != nil {
		res.hook = fmt.Errorf("foreign data was written to the database during the sync: %s", *bad)
	}
	return res
}

// c47Execute runs one single-cycle sync under the plan and returns (outcome, applied deviations, error = violation).
func c47Execute(t *testing.T, st *c47State, plan []c47Dev) (string, []string, map[string]int64, error) {
	db := rawdb.NewMemoryDatabase()
	res := c47Cycle(t, db, st, c47Opts{plan: plan})
	applied, counts := res.applied, res.counts
	if res.hook != nil {
		return "", applied, counts, res.hook
	}
	if res.stalled {
		return "stalled", applied, counts, c47CheckGenuine(db, st)
	}
	if errors.Is(res.err, errC47Panic) {
		return "", applied, counts, res.err
	}
	if res.err != nil {
		if verr := c47CheckGenuine(db, st); verr != nil {
			return "", applied, counts, fmt.Errorf("Sync returned %v and the database holds foreign data: %v", res.err, verr)
		}
		return "sync-error:" + res.err.Error(), applied, counts, nil
	}
	return "completed", applied, counts, c47CheckComplete(db, st)
}

func TestVerif_C47(t *testing.T) {
	mc.Run(t, "C47", func(r *mc.R) {
		defer func(old int) { accountConcurrency = old }(accountConcurrency)
		accountConcurrency = 4
		r.Rule("snap/1 syncer against one in-memory peer serving a 4-account target (40-slot contract, 2 small contracts, shared code, plain account), hash and path scheme; " +
			"the answer to the j-th request of a kind {account, storage, code, heal} is replaced by a behaviour of {truncate (valid short answer), empty, drop (times out), proof node removed, value corrupted, last item withheld under the full proof}; " +
			"all plans with 0, 1 and 2 deviations over all (kind, j, behaviour) with j below the per-kind request count of honest calibration runs (thorough: + 2); distinct = distinct (scheme, deviations actually applied)")
		r.Assume("syncer goroutines, timers and request ids run free: which request becomes the j-th of its kind may vary between executions (storage tasks are picked in map order); the oracle only reads the database after Sync returned and does not depend on the schedule")
		r.Assume("an 'empty' answer makes the syncer ignore the peer for the rest of the cycle, so an honest reserve peer registers just before it is sent; request timeouts are the syncer's own (msgrate OverrideTTLLimit = 30ms) and only cause retries")
		r.Bound("accountConcurrency", accountConcurrency)

		schemes := []string{rawdb.HashScheme, rawdb.PathScheme}
		states := map[string]*c47State{}
		for _, s := range schemes {
			states[s] = c47MakeState(s)
		}
		// calibration: honest runs, count the requests per kind
		maxReq := map[string]int64{}
		for _, s := range schemes {
			for i := 0; i < 3; i++ {
				c := c47Case{s, []c47Dev{}}
				var counts map[string]int64
				r.Case(c, func() error {
					out, _, cnt, err := c47Execute(t, states[s], nil)
					counts = cnt
					if err == nil && out != "completed" {
						return fmt.Errorf("honest sync ended with %q", out)
					}
					return err
				})
				for k, v := range counts {
					if v > maxReq[k] {
						maxReq[k] = v
					}
				}
			}
		}
		if r.Replaying() {
			maxReq = map[string]int64{c47Account: 30, c47Storage: 30, c47Code: 30, c47Heal: 30}
		}
		slack := mc.Pick(r, 0, 2) // positions beyond the honest request count are only reached after retries
		r.Bound("position_slack", slack)
		var positions []c47Dev
		for _, kind := range []string{c47Account, c47Storage, c47Code, c47Heal} {
			n := int(maxReq[kind]) + slack
			r.Bound("positions."+kind, n)
			for j := 0; j < n; j++ {
				for _, b := range c47Behaviours[kind] {
					positions = append(positions, c47Dev{kind, j, b})
				}
			}
		}
		r.Bound("single_deviations", len(positions))
		maxDev := 2
		var plans [][]c47Dev
		for i := range positions {
			plans = append(plans, []c47Dev{positions[i]})
		}
		if maxDev >= 2 {
			for i := range positions {
				for j := i + 1; j < len(positions); j++ {
					if positions[i].Kind == positions[j].Kind && positions[i].Index == positions[j].Index {
						continue
					}
					plans = append(plans, []c47Dev{positions[i], positions[j]})
				}
			}
		}
		pairScheme := mc.Pick(r, 1, 2) // quick: pairs on the path scheme only (singles on both); thorough: both
		r.Bound("plans", len(plans))
		r.Bound("max_deviations", maxDev)
		type job struct {
			scheme string
			plan   []c47Dev
		}
		var jobs []job
		for si, s := range schemes {
			for _, p := range plans {
				if len(p) == 2 && pairScheme == 1 && si == 0 {
					continue
				}
				jobs = append(jobs, job{s, p})
			}
		}
		r.Bound("runs", len(jobs))
		r.Parallel(len(jobs), func(i int) {
			j := jobs[i]
			c := c47Case{j.scheme, j.plan}
			var out string
			var applied []string
			r.Case(c, func() error {
				var err error
				out, applied, _, err = c47Execute(t, states[j.scheme], j.plan)
				return err
			})
			if out == "" {
				return
			}
			if out == "stalled" {
				r.NotExhaustive("a run had to be cancelled by the 60 s watchdog")
			}
			r.Outcome(fmt.Sprintf("%s,applied=%d/%d", out, len(applied), len(j.plan)))
			for _, a := range applied {
				r.Outcome("applied:" + a[:strings.Index(a, "#")] + a[strings.Index(a, ":"):])
			}
			sort.Strings(applied)
			r.DistinctHash(mc.Hash64(j.scheme + fmt.Sprint(applied)))
			if i%997 == 0 {
				r.Sample(map[string]any{"case": c, "applied": applied, "outcome": out})
			}
		})
	})
}
