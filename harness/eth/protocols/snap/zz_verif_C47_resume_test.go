//go:build verif

package snap

// C47, two-cycle family: a sync cycle on target A is interrupted at every point (cancel
// right after the k-th delivered answer, for every k) while the peer withholds one kind of
// request, the progress is persisted by the syncer itself (Sync's deferred
// saveSyncStatus), and a fresh syncer resumes on the same database against target B,
// which differs from A in exactly one place (or is A itself).

import (
	"bytes"
	"errors"
	"fmt"
	"strings"
	"testing"

	"github.com/ethereum/go-ethereum/common"
	"github.com/ethereum/go-ethereum/core/rawdb"
	"github.com/ethereum/go-ethereum/crypto"
	"github.com/ethereum/go-ethereum/ethdb"
	"github.com/ethereum/go-ethereum/internal/verif/mc"
)

var (
	c47rP   = common.HexToHash("0x1100000000000000000000000000000000000000000000000000000000000001") // small contract, code A
	c47rX   = common.HexToHash("0x1200000000000000000000000000000000000000000000000000000000000002") // 10-slot contract (2 storage answers), code B
	c47rE   = common.HexToHash("0x9c00000000000000000000000000000000000000000000000000000000000003") // plain account
	c47rS   = common.HexToHash("0xf300000000000000000000000000000000000000000000000000000000000004") // storage, no code
	c47rNew = common.HexToHash("0x1180000000000000000000000000000000000000000000000000000000000005") // only in the "account added" target
)

// c47rSpecs returns target A, modified by variant. Accounts P, X (and New) lie in the first
// of the two account ranges (accountConcurrency = 2), E and S in the second.
func c47rSpecs(variant string) []c47AccSpec {
	p := c47AccSpec{c47rP, c47Slots(2, 20), c47CodeA, 500, 1}
	x := c47AccSpec{c47rX, c47Slots(10, 100), c47CodeB, 501, 1}
	e := c47AccSpec{c47rE, nil, nil, 502, 0}
	s := c47AccSpec{c47rS, c47Slots(2, 40), nil, 503, 0}
	specs := []c47AccSpec{p, x, e, s}
	switch variant {
	case "same":
	case "X-slot-changed":
		specs[1].slots[3] = 7777
	case "X-slot-added":
		specs[1].slots[11] = 111
	case "X-slot-deleted":
		delete(specs[1].slots, 3)
	case "P-slot-changed":
		specs[0].slots[1] = 7777
	case "P-slot-added":
		specs[0].slots[3] = 333
	case "P-slot-deleted":
		delete(specs[0].slots, 1)
	case "S-slot-changed":
		specs[3].slots[2] = 7777
	case "X-balance":
		specs[1].balance = 999999
	case "E-balance":
		specs[2].balance = 999999
	case "X-destroyed":
		specs = []c47AccSpec{p, e, s}
	case "account-added":
		specs = []c47AccSpec{p, {c47rNew, nil, nil, 77, 0}, x, e, s}
	default:
		panic(variant)
	}
	return specs
}

const c47rF1Key = "snap/1 resume panics when a contract whose storage completed in an interrupted cycle no longer exists in the new pivot"

type c47rWithhold struct {
	Kind   string `json:"kind"`   // none | code | storage | account
	Target string `json:"target"` // storage: P, X or S (first account of the request); account: range 0 or 1
}

func (w c47rWithhold) fn() func(kind string, first common.Hash) bool {
	switch w.Kind {
	case "none":
		return nil
	case "code":
		return func(kind string, first common.Hash) bool { return kind == c47Code }
	case "storage":
		target := map[string]common.Hash{"P": c47rP, "X": c47rX, "S": c47rS}[w.Target]
		return func(kind string, first common.Hash) bool { return kind == c47Storage && first == target }
	case "account":
		return func(kind string, first common.Hash) bool {
			return kind == c47Account && (first[0] >= 0x80) == (w.Target == "1")
		}
	}
	panic(w.Kind)
}

type c47rCase struct {
	Scheme   string       `json:"scheme"`
	Variant  string       `json:"variant"`
	Withhold c47rWithhold `json:"withhold"`
	CancelAt int          `json:"cancel_after_delivery"` // 0: cycle 1 runs until it completes or only withheld requests are left
}

func c47rHas(elems []*kv, key []byte) ([]byte, bool) {
	for _, e := range elems {
		if bytes.Equal(e.k, key) {
			return e.v, true
		}
	}
	return nil, false
}

// c47CheckMoved: Sync on B returned nil after an earlier cycle on A. Tries, and every flat
// entry / code of B, must be exactly B's. Entries of A that do not exist in B any more (a
// deleted slot, a destroyed contract) may be left in the flat state: sync.go documents the
// flat state as "maybe outdated during the sync, fixed later during the snapshot generation";
// they are returned as leftovers. A B key with a non-B value, or anything that is neither
// A's nor B's, is a violation. In the path scheme the same holds for stored trie nodes: a node
// at a path of B's tries must be B's node; nodes at paths that exist only in A's tries (below a
// deleted slot, of a destroyed contract) may remain and are counted as strays.
func c47CheckMoved(db ethdb.KeyValueStore, a, b *c47State) (leftovers int, strays int, err error) {
	if err := c47CheckTries(db, b); err != nil {
		return 0, 0, err
	}
	seenAcc, seenSlot := 0, 0
	c47Iterate(db, rawdb.SnapshotAccountPrefix, 33, func(k, v []byte) {
		h := common.BytesToHash(k[1:])
		if want, ok := b.slim[h]; ok {
			seenAcc++
			if !bytes.Equal(want, v) && err == nil {
				err = fmt.Errorf("flat account %x holds %x, final target has %x", h, v, want)
			}
			return
		}
		if old, ok := a.slim[h]; ok && bytes.Equal(old, v) {
			leftovers++
		} else if err == nil {
			err = fmt.Errorf("flat account %x holds %x, which is in neither target", h, v)
		}
	})
	c47Iterate(db, rawdb.SnapshotStoragePrefix, 65, func(k, v []byte) {
		acc, slot := common.BytesToHash(k[1:33]), k[33:]
		if want, ok := c47rHas(b.stElems[acc], slot); ok {
			seenSlot++
			if !bytes.Equal(want, v) && err == nil {
				err = fmt.Errorf("flat storage %x/%x holds %x, final target has %x (stale)", acc, slot, v, want)
			}
			return
		}
		if old, ok := c47rHas(a.stElems[acc], slot); ok && bytes.Equal(old, v) {
			leftovers++
		} else if err == nil {
			err = fmt.Errorf("flat storage %x/%x holds %x, which is in neither target", acc, slot, v)
		}
	})
	if err != nil {
		return
	}
	wantSlots := 0
	for _, e := range b.stElems {
		wantSlots += len(e)
	}
	if seenAcc != len(b.accElems) || seenSlot != wantSlots {
		return 0, 0, fmt.Errorf("flat state covers %d accounts / %d slots of the final target, which has %d / %d", seenAcc, seenSlot, len(b.accElems), wantSlots)
	}
	for h, code := range b.codes {
		if got := rawdb.ReadCode(db, h); !bytes.Equal(got, code) {
			return 0, 0, fmt.Errorf("code %x: stored %x, final target has %x", h, got, code)
		}
	}
	c47Iterate(db, rawdb.CodePrefix, 33, func(k, v []byte) {
		if crypto.Keccak256Hash(v) != common.BytesToHash(k[1:]) && err == nil {
			err = fmt.Errorf("code entry %x holds %d bytes hashing to %x", k[1:], len(v), crypto.Keccak256Hash(v))
		}
	})
	if err != nil {
		return
	}
	// path scheme: nodes at paths of B's tries must be B's nodes (the iteration above read them all);
	// nodes at other paths are strays left from A.
	if b.scheme == rawdb.PathScheme {
		it := db.NewIterator(nil, nil)
		defer it.Release()
		for it.Next() {
			k, v := it.Key(), it.Value()
			if ok, path := rawdb.ResolveAccountTrieNodeKey(k); ok {
				if n, has := b.accNodes[string(path)]; !has {
					if old, was := a.accNodes[string(path)]; !was || crypto.Keccak256Hash(v) != old.hash {
						return 0, 0, fmt.Errorf("account trie node at path %x belongs to neither target", path)
					}
					strays++
				} else if crypto.Keccak256Hash(v) != n.hash {
					return 0, 0, fmt.Errorf("account trie node at path %x is not the final target's", path)
				}
			} else if ok, owner, path := rawdb.ResolveStorageTrieNode(k); ok {
				if n, has := b.stNodes[owner][string(path)]; !has {
					if old, was := a.stNodes[owner][string(path)]; !was || crypto.Keccak256Hash(v) != old.hash {
						return 0, 0, fmt.Errorf("storage trie node of %x at path %x belongs to neither target", owner, path)
					}
					strays++
				} else if crypto.Keccak256Hash(v) != n.hash {
					return 0, 0, fmt.Errorf("storage trie node of %x at path %x is not the final target's", owner, path)
				}
			}
		}
	}
	return leftovers, strays, nil
}

func TestVerif_C47_resume(t *testing.T) {
	mc.Run(t, "C47", func(r *mc.R) {
		defer func(old int) { accountConcurrency = old }(accountConcurrency)
		accountConcurrency = 2
		variants := []string{"same", "X-slot-changed", "X-slot-added", "X-slot-deleted", "P-slot-changed", "P-slot-added", "P-slot-deleted", "S-slot-changed",
			"X-balance", "E-balance", "X-destroyed", "account-added"}
		withholds := []c47rWithhold{{"none", ""}, {"code", ""}, {"storage", "P"}, {"storage", "X"}, {"storage", "S"}, {"account", "0"}, {"account", "1"}}
		schemes := []string{rawdb.HashScheme, rawdb.PathScheme}
		r.Rule("two sync cycles on one database: cycle 1 = snap/1 syncer on target A (4 accounts in 2 account ranges: small contract P and 10-slot contract X with codes in range 0, plain account E and storage-only contract S in range 1) with a peer that never answers one kind of request {nothing withheld, byte codes, storage of P / X / S, account range 0 / 1}, cancelled right after the k-th delivered answer for every k up to the number of answers the cycle can obtain (and k = none); " +
			"cycle 2 = fresh syncer resuming from the persisted progress with an honest peer serving target B in {A itself, one slot of X / P / S changed, a slot added to / deleted from X / P, balance of X / E changed, X destroyed, an account added}; hash and path scheme; distinct = distinct (scheme, variant, withheld, k)")
		r.Assume("interruption = the cancel channel of Sync closed by the peer right after handing over its k-th answer; the progress is persisted by Sync's own deferred saveSyncStatus; what is in flight at that moment depends on the free-running syncer goroutines, the verdict does not")
		r.Assume("flat-state entries of A that no longer exist in B (deleted slot, destroyed contract) may remain after cycle 2 (sync.go: flat state 'maybe outdated during the sync', repaired by snapshot generation); they are counted, not judged. Everything that exists in B must be exactly B's")
		r.Bound("variants", variants)
		r.Bound("withhold", withholds)

		type world struct{ a *c47State; b map[string]*c47State }
		worlds := map[string]*world{}
		for _, s := range schemes {
			w := &world{a: c47MakeStateOf(s, c47rSpecs("same")), b: map[string]*c47State{}}
			for _, v := range variants {
				w.b[v] = c47MakeStateOf(s, c47rSpecs(v))
				if v != "same" && w.b[v].root == w.a.root {
					r.HarnessError("variant " + v + " has the root of A")
					return
				}
			}
			worlds[s] = w
		}
		// calibration: how many answers can cycle 1 obtain under each withholding?
		type wk struct {
			scheme string
			wi     int
		}
		maxK := map[wk]int{}
		for _, s := range schemes {
			for wi, wh := range withholds {
				for rep := 0; rep < 2; rep++ {
					res := c47Cycle(t, rawdb.NewMemoryDatabase(), worlds[s].a, c47Opts{withhold: wh.fn()})
					if res.deliveries > maxK[wk{s, wi}] {
						maxK[wk{s, wi}] = res.deliveries
					}
				}
				r.Bound(fmt.Sprintf("answers.%s.%s%s", s, wh.Kind, wh.Target), maxK[wk{s, wi}])
			}
		}
		if r.Replaying() {
			for k := range maxK {
				maxK[k] = 40
			}
		}
		var cases []c47rCase
		for _, s := range schemes {
			for _, v := range variants {
				for wi, wh := range withholds {
					for k := 0; k <= maxK[wk{s, wi}]; k++ {
						cases = append(cases, c47rCase{s, v, wh, k})
					}
				}
			}
		}
		r.Bound("runs", len(cases))
		r.Parallel(len(cases), func(i int) {
			c := cases[i]
			w := worlds[c.Scheme]
			a, b := w.a, w.b[c.Variant]
			var outcome, detail string
			var finding bool
			r.Case(c, func() error {
				db := rawdb.NewMemoryDatabase()
				r1 := c47Cycle(t, db, a, c47Opts{withhold: c.Withhold.fn(), cancelAfter: c.CancelAt})
				if r1.hook != nil {
					return fmt.Errorf("cycle 1: %v", r1.hook)
				}
				if r1.stalled {
					outcome = "cycle1-watchdog"
					return nil
				}
				if errors.Is(r1.err, errC47Panic) {
					return fmt.Errorf("cycle 1: %v", r1.err)
				}
				first := "interrupted"
				if r1.err == nil {
					first = "completed"
					if err := c47CheckComplete(db, a); err != nil {
						return fmt.Errorf("cycle 1 completed: %v", err)
					}
				} else if err := c47CheckGenuine(db, a); err != nil {
					return fmt.Errorf("cycle 1 interrupted: %v", err)
				}
				r2 := c47Cycle(t, db, b, c47Opts{})
				if r2.hook != nil {
					return fmt.Errorf("cycle 2 (after cycle 1 %s with %d answers): %v", first, r1.deliveries, r2.hook)
				}
				if r2.stalled {
					outcome = "cycle2-watchdog"
					return nil
				}
				if errors.Is(r2.err, errC47Panic) && c.Variant == "X-destroyed" && strings.Contains(r2.err.Error(), "storage completion flags should be emptied") {
					outcome, finding = "FINDING:resume-after-completed-contract-vanished-panics", true
					return nil
				}
				if errors.Is(r2.err, errC47Panic) {
					return fmt.Errorf("cycle 2 (after cycle 1 %s with %d answers): %v", first, r1.deliveries, r2.err)
				}
				if r2.err != nil {
					outcome = "cycle2-error:" + r2.err.Error()
					return nil
				}
				if c.Variant == "same" {
					outcome = "cycle1-" + first + ",resumed-on-A"
					if err := c47CheckComplete(db, b); err != nil {
						return fmt.Errorf("resumed on the same target after cycle 1 %s with %d answers: %v", first, r1.deliveries, err)
					}
					return nil
				}
				left, strays, err := c47CheckMoved(db, a, b)
				if err != nil {
					return fmt.Errorf("cycle 2 returned nil after cycle 1 %s with %d answers: %v", first, r1.deliveries, err)
				}
				outcome = fmt.Sprintf("cycle1-%s,moved,flat-leftovers=%v,stray-path-nodes=%v", first, left > 0, strays > 0)
				if left > 0 || strays > 0 {
					detail = fmt.Sprintf("detail:%s:%s%s:leftovers=%d,strays=%d", c.Variant, c.Withhold.Kind, c.Withhold.Target, left, strays)
				}
				return nil
			})
			if finding && c.Scheme == rawdb.HashScheme && c.Withhold.Kind == "code" && c.CancelAt == 0 {
				r.Violation(c47rF1Key, "cycle 1 on A with byte codes withheld runs until only code requests are left and is cancelled: the storage of contract X is complete and journalled in StorageCompleted, its account is not persisted (P before it in the range waits for code). "+
					"Cycle 2 resumes on B in which X no longer exists: the account range answer does not contain X, so forwardAccountTask never deletes X's completion flag and hits its own assertion panic(\"storage completion flags should be emptied, 1 left\") (sync.go, forwardAccountTask) as soon as the range is done. "+
					"Every interruption point at which X's storage is complete but the range not forwarded behaves the same (outcome FINDING:...). Unreachable on post-Cancun mainnet (contracts with storage cannot vanish), reachable on networks with SELFDESTRUCT, which the surrounding code explicitly caters for.", c)
			}
			if outcome == "" {
				return
			}
			if outcome == "cycle1-watchdog" || outcome == "cycle2-watchdog" {
				r.NotExhaustive("a run had to be cancelled by the 60 s watchdog")
			}
			r.Outcome(outcome)
			if detail != "" {
				r.Outcome(detail)
			}
			r.DistinctHash(mc.Hash64(fmt.Sprint(c)))
			if i%211 == 0 {
				r.Sample(c)
			}
		})
	})
}
