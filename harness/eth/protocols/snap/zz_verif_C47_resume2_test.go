//go:build verif

package snap

// C47, two-cycle family for the snap/2 syncer (syncv2.go): a download cycle on pivot A is
// interrupted at every delivered answer while the peer withholds one kind of request, the
// syncer's own teardown persists the progress, and a fresh syncerV2 resumes on the same
// database against the same pivot or against pivot B = A + one block (catch-up through the
// block access list of that block, served by the peer). Every contract has its own code.

import (
	"bytes"
	"errors"
	"fmt"
	"math/big"
	"runtime/debug"
	"sort"
	"sync"
	"sync/atomic"
	"testing"
	"time"

	"github.com/ethereum/go-ethereum/common"
	"github.com/ethereum/go-ethereum/core/rawdb"
	"github.com/ethereum/go-ethereum/core/types"
	"github.com/ethereum/go-ethereum/core/types/bal"
	"github.com/ethereum/go-ethereum/crypto"
	"github.com/ethereum/go-ethereum/ethdb"
	"github.com/ethereum/go-ethereum/internal/verif/mc"
	"github.com/ethereum/go-ethereum/rlp"
	"github.com/holiman/uint256"
)

// c47vNames: addresses whose hashes are ordered P < New < X (first half of the hash space,
// account range 0) and E < S < C (second half, account range 1).
type c47vNames struct {
	addr map[string]common.Address
	hash map[string]common.Hash
	name map[common.Hash]string
}

func c47vPick() *c47vNames {
	type cand struct {
		a common.Address
		h common.Hash
	}
	var lo, hi []cand
	for i := 1; len(lo) < 3 || len(hi) < 3; i++ {
		a := common.BytesToAddress([]byte{0xc4, 0x72, byte(i >> 8), byte(i)})
		h := crypto.Keccak256Hash(a[:])
		if h[0] < 0x80 {
			lo = append(lo, cand{a, h})
		} else {
			hi = append(hi, cand{a, h})
		}
	}
	lo, hi = lo[:3], hi[:3]
	sort.Slice(lo, func(i, j int) bool { return bytes.Compare(lo[i].h[:], lo[j].h[:]) < 0 })
	sort.Slice(hi, func(i, j int) bool { return bytes.Compare(hi[i].h[:], hi[j].h[:]) < 0 })
	n := &c47vNames{map[string]common.Address{}, map[string]common.Hash{}, map[common.Hash]string{}}
	for i, name := range []string{"P", "New", "X"} {
		n.addr[name], n.hash[name], n.name[lo[i].h] = lo[i].a, lo[i].h, name
	}
	for i, name := range []string{"E", "S", "C"} {
		n.addr[name], n.hash[name], n.name[hi[i].h] = hi[i].a, hi[i].h, name
	}
	return n
}

func c47vCode(tag byte) []byte { return []byte{0x60, tag, 0x60, 0x00, 0x55, 0x00, tag} }

// c47vSpecs: pivot A (variant "same") or pivot B. Every contract has unique code.
// P: small contract; X: 10-slot contract (two storage answers); E: plain account;
// S: small contract; C: contract without storage.
func c47vSpecs(n *c47vNames, variant string) []c47AccSpec {
	p := c47AccSpec{n.hash["P"], c47Slots(2, 20), c47vCode(1), 500, 1}
	x := c47AccSpec{n.hash["X"], c47Slots(10, 100), c47vCode(2), 501, 1}
	e := c47AccSpec{n.hash["E"], nil, nil, 502, 0}
	s := c47AccSpec{n.hash["S"], c47Slots(2, 40), c47vCode(3), 503, 1}
	c := c47AccSpec{n.hash["C"], nil, c47vCode(4), 504, 1}
	specs := []c47AccSpec{p, x, e, s, c}
	switch variant {
	case "same":
	case "X-slot-changed":
		specs[1].slots[3] = 7777
	case "X-slot-added":
		specs[1].slots[11] = 111
	case "X-slot-deleted":
		delete(specs[1].slots, 3)
	case "P-slot-changed":
		specs[0].slots[1] = 7777
	case "S-slot-deleted":
		delete(specs[3].slots, 2)
	case "X-balance":
		specs[1].balance = 999999
	case "E-balance":
		specs[2].balance = 999999
	case "X-code-changed":
		specs[1].code = c47vCode(9)
	case "C-code-changed":
		specs[4].code = c47vCode(8)
	case "contract-added":
		specs = []c47AccSpec{p, {n.hash["New"], c47Slots(1, 60), c47vCode(7), 77, 1}, x, e, s, c}
	default:
		panic(variant)
	}
	return specs
}

// c47vBAL derives the block access list of the single block between pivot A and pivot B.
func c47vBAL(n *c47vNames, a, b []c47AccSpec) (*bal.BlockAccessList, []byte) {
	cb := bal.NewConstructionBlockAccessList()
	find := func(l []c47AccSpec, k common.Hash) *c47AccSpec {
		for i := range l {
			if l[i].key == k {
				return &l[i]
			}
		}
		return nil
	}
	slot := func(v uint64) common.Hash { return common.BytesToHash(key32(v)) }
	diff := func(addr common.Address, old, cur *c47AccSpec) {
		if old == nil {
			old = &c47AccSpec{}
		}
		if cur == nil {
			cur = &c47AccSpec{}
		}
		if old.balance != cur.balance {
			cb.BalanceChange(0, addr, uint256.NewInt(cur.balance))
		}
		if old.nonce != cur.nonce {
			cb.NonceChange(addr, 0, cur.nonce)
		}
		if !bytes.Equal(old.code, cur.code) {
			cb.CodeChange(addr, 0, cur.code)
		}
		for idx, v := range cur.slots {
			if ov, ok := old.slots[idx]; !ok || ov != v {
				cb.StorageWrite(0, addr, slot(idx), slot(v))
			}
		}
		for idx := range old.slots {
			if _, ok := cur.slots[idx]; !ok {
				cb.StorageWrite(0, addr, slot(idx), common.Hash{})
			}
		}
	}
	for name, addr := range n.addr {
		h := n.hash[name]
		diff(addr, find(a, h), find(b, h))
	}
	var buf bytes.Buffer
	if err := cb.EncodeRLP(&buf); err != nil {
		panic(err)
	}
	var out bal.BlockAccessList
	if err := rlp.DecodeBytes(buf.Bytes(), &out); err != nil {
		panic(err)
	}
	return &out, buf.Bytes()
}

type c47vWorld struct {
	scheme  string
	names   *c47vNames
	a       *c47State
	b       map[string]*c47State
	headerA *types.Header
	headerB map[string]*types.Header
	bals    map[string]map[common.Hash]rlp.RawValue
}

func c47vMakeWorld(scheme string, variants []string) *c47vWorld {
	n := c47vPick()
	w := &c47vWorld{scheme: scheme, names: n, b: map[string]*c47State{}, headerB: map[string]*types.Header{}, bals: map[string]map[common.Hash]rlp.RawValue{}}
	specsA := c47vSpecs(n, "same")
	w.a = c47MakeStateOf(scheme, specsA)
	w.headerA = mkPivot(100, w.a.root)
	emptyHash, zero := common.Hash{}, uint64(0)
	for _, v := range variants {
		if v == "same" {
			w.b[v], w.headerB[v] = w.a, w.headerA
			continue
		}
		specsB := c47vSpecs(n, v)
		w.b[v] = c47MakeStateOf(scheme, specsB)
		b, raw := c47vBAL(n, specsA, specsB)
		balHash := b.Hash()
		h := &types.Header{
			Number: big.NewInt(101), ParentHash: w.headerA.Hash(), Root: w.b[v].root, Difficulty: common.Big0,
			BaseFee: common.Big0, WithdrawalsHash: &emptyHash, BlobGasUsed: &zero, ExcessBlobGas: &zero,
			ParentBeaconRoot: &emptyHash, RequestsHash: &emptyHash, BlockAccessListHash: &balHash,
		}
		w.headerB[v] = h
		w.bals[v] = map[common.Hash]rlp.RawValue{h.Hash(): raw}
	}
	return w
}

// ---- peer / cycle ------------------------------------------------------------

const c47BAL = "accesslist"

type c47vRun struct {
	st       *c47State
	syncer   *syncerV2
	mu       sync.Mutex
	done     atomic.Int64
	peer     *testPeerV2
	withhold func(kind string, first common.Hash) bool

	cancelAfter int
	deliveries  int
	dropsInRow  int
	stallCancel bool
	term        func()
}

func (run *c47vRun) withheld(kind string, first common.Hash) bool {
	if run.withhold == nil || !run.withhold(kind, first) {
		return false
	}
	run.dropsInRow++
	if run.dropsInRow >= 4 {
		run.stallCancel = true
		run.term()
	}
	return true
}

func (run *c47vRun) delivered() {
	run.deliveries++
	run.dropsInRow = 0
	if run.cancelAfter > 0 && run.deliveries == run.cancelAfter {
		run.term()
	}
}

type c47vOpts struct {
	withhold    func(kind string, first common.Hash) bool
	cancelAfter int
	bals        map[common.Hash]rlp.RawValue
	looseRoot   bool
}

type c47vResult struct {
	err         error
	hook        error
	stalled     bool
	stallCancel bool
	deliveries  int
	phase       syncPhase
}

type c47vDB struct {
	ethdb.Database
	h *c47DB
}

func (d *c47vDB) Put(k, v []byte) error { d.h.check(k, v); return d.Database.Put(k, v) }
func (d *c47vDB) NewBatch() ethdb.Batch { return &c47Batch{d.Database.NewBatch(), d.h} }
func (d *c47vDB) NewBatchWithSize(n int) ethdb.Batch {
	return &c47Batch{d.Database.NewBatchWithSize(n), d.h}
}

// c47vCycle runs one Sync call of a fresh snap/2 syncer over db against a peer serving st.
func c47vCycle(t *testing.T, db ethdb.Database, st *c47State, pivot *types.Header, o c47vOpts) c47vResult {
	run := &c47vRun{st: st, withhold: o.withhold, cancelAfter: o.cancelAfter}
	hook := &c47DB{st: st, looseRoot: o.looseRoot}
	run.syncer = newSyncerV2(&c47vDB{Database: db, h: hook}, st.scheme)
	run.syncer.rates.OverrideTTLLimit = 30 * time.Millisecond
	cancel := make(chan struct{})
	var once sync.Once
	run.term = func() { once.Do(func() { close(cancel) }) }

	p := newTestPeerV2("A", t, func() {})
	p.accountTrie = st.accTrie.Copy()
	p.accountValues = st.accElems
	p.setStorageTries(st.stTries)
	p.storageValues = st.stElems
	p.accessLists = o.bals
	p.remote = run.syncer
	p.accountRequestV2Handler = func(tp *testPeerV2, id uint64, root, origin, limit common.Hash, cap int) error {
		run.mu.Lock()
		defer run.mu.Unlock()
		defer run.done.Add(1)
		if run.withheld(c47Account, origin) {
			return nil
		}
		keys, vals, proofs := createAccountRequestResponseV2(tp, root, origin, limit, cap)
		run.syncer.OnAccounts(tp, id, keys, vals, proofs)
		run.delivered()
		return nil
	}
	p.storageRequestV2Handler = func(tp *testPeerV2, id uint64, root common.Hash, accounts []common.Hash, origin, limit []byte, max int) error {
		run.mu.Lock()
		defer run.mu.Unlock()
		defer run.done.Add(1)
		if run.withheld(c47Storage, accounts[0]) {
			return nil
		}
		hashes, slots, proofs := createStorageRequestResponseV2(tp, root, accounts, origin, limit, 500)
		run.syncer.OnStorage(tp, id, hashes, slots, proofs)
		run.delivered()
		return nil
	}
	p.codeRequestHandler = func(tp *testPeerV2, id uint64, hashes []common.Hash, max int) error {
		run.mu.Lock()
		defer run.mu.Unlock()
		defer run.done.Add(1)
		if run.withheld(c47Code, hashes[0]) {
			return nil
		}
		var codes [][]byte
		for _, h := range hashes {
			codes = append(codes, st.codes[h])
		}
		run.syncer.OnByteCodes(tp, id, codes)
		run.delivered()
		return nil
	}
	p.accessListRequestHandler = func(tp *testPeerV2, id uint64, hashes []common.Hash, max int) error {
		run.mu.Lock()
		defer run.mu.Unlock()
		defer run.done.Add(1)
		if run.withheld(c47BAL, hashes[0]) {
			return nil
		}
		var results []rlp.RawValue
		for _, h := range hashes {
			if raw, ok := tp.accessLists[h]; ok {
				results = append(results, raw)
			}
		}
		rawList, _ := rlp.EncodeToRawList(results)
		run.syncer.OnAccessLists(tp, id, rawList)
		run.delivered()
		return nil
	}
	run.peer = p
	run.syncer.Register(p)

	result := make(chan error, 1)
	go func() {
		defer func() {
			if p := recover(); p != nil {
				result <- fmt.Errorf("%w: %v\n%s", errC47Panic, p, debug.Stack())
			}
		}()
		result <- run.syncer.Sync(pivot, cancel)
	}()
	var res c47vResult
	select {
	case res.err = <-result:
	case <-time.After(60 * time.Second): // watchdog: stops the run, never decides a verdict
		res.stalled = true
		run.term()
		res.err = <-result
	}
	run.term()
	for {
		started := p.nAccountRequests.Load() + p.nStorageRequests.Load() + p.nBytecodeRequests.Load() + p.nAccessListRequests.Load()
		if run.done.Load() >= started {
			break
		}
		time.Sleep(200 * time.Microsecond)
	}
	run.mu.Lock()
	res.deliveries, res.stallCancel = run.deliveries, run.stallCancel
	run.mu.Unlock()
	res.phase = run.syncer.getPhase()
	if bad := hook.bad.Load(); bad != nil {
		res.hook = fmt.Errorf("foreign data was written to the database during the sync: %s", *bad)
	}
	return res
}

type c47vWithhold struct {
	Kind   string `json:"kind"`   // none | code | storage | account
	Target string `json:"target"` // storage: P, X or S; account: range 0 or 1
}

func (w c47vWithhold) fn(n *c47vNames) func(kind string, first common.Hash) bool {
	switch w.Kind {
	case "none":
		return nil
	case "code":
		return func(kind string, first common.Hash) bool { return kind == c47Code }
	case "storage":
		target := n.hash[w.Target]
		return func(kind string, first common.Hash) bool { return kind == c47Storage && first == target }
	case "account":
		return func(kind string, first common.Hash) bool {
			return kind == c47Account && (first[0] >= 0x80) == (w.Target == "1")
		}
	}
	panic(w.Kind)
}

type c47vCase struct {
	Syncer   string       `json:"syncer"`
	Scheme   string       `json:"scheme"`
	Variant  string       `json:"variant"`
	Withhold c47vWithhold `json:"withhold"`
	CancelAt int          `json:"cancel_after_delivery"`
}

func TestVerif_C47_resume2(t *testing.T) {
	mc.Run(t, "C47", func(r *mc.R) {
		defer func(old int) { accountConcurrency = old }(accountConcurrency)
		accountConcurrency = 2
		variants := []string{"same", "X-slot-changed", "X-slot-added", "X-slot-deleted", "P-slot-changed", "S-slot-deleted", "X-balance", "E-balance",
			"X-code-changed", "C-code-changed", "contract-added"}
		withholds := []c47vWithhold{{"none", ""}, {"code", ""}, {"storage", "P"}, {"storage", "X"}, {"storage", "S"}, {"account", "0"}, {"account", "1"}}
		schemes := []string{rawdb.HashScheme, rawdb.PathScheme}
		r.Rule("snap/2 syncer (syncerV2), two Sync calls on one database: cycle 1 on pivot A (5 accounts in 2 account ranges, every contract with its own code: small contract P and 10-slot contract X in range 0; plain account E, small contract S and storage-less contract C in range 1) with a peer that never answers one kind of request {nothing withheld, byte codes, storage of P / X / S, account range 0 / 1}, cancelled right after the k-th delivered answer for every k up to the number of answers the cycle can obtain (and k = none); " +
			"cycle 2 = fresh syncerV2 resuming from the persisted progress with an honest peer on the same pivot, or on pivot B = A + 1 block whose block access list (served by the peer, committed in the header) changes exactly one thing {slot of X / P changed, slot added to X, slot deleted from X / S, balance of X / E, code of X / C replaced, contract with storage and code added}; hash and path scheme; distinct = distinct (scheme, variant, withheld, k)")
		r.Assume("interruption = Sync's cancel channel closed by the peer right after handing over its k-th answer; the progress is persisted by Sync's own deferred teardown (forwardAccountTask on every task + saveSyncStatus); which requests are in flight at that moment depends on the free-running syncer goroutines, the verdict does not")
		r.Assume("headers of A (number 100) and B (101, parent A, BlockAccessListHash of the derived access list) are written as canonical headers before cycle 1; snap/2 has no trie-node healing: tries are generated locally from the flat state after the download")
		r.Assume("no account with storage disappears between the pivots: snap/2 runs on chains with EIP-6780, and bal_apply.go states this premise itself. (Breaking it - X drained to an empty account through its access list - runs into the same 'storage completion flags should be emptied' assertion panic in syncerV2.forwardAccountTask as the registered snap/1 finding; observed in 20-25 of the runs of such a variant, not enumerated here.)")
		r.Bound("variants", variants)
		r.Bound("withhold", withholds)

		worlds := map[string]*c47vWorld{}
		for _, s := range schemes {
			w := c47vMakeWorld(s, variants)
			for _, v := range variants {
				if v != "same" && w.b[v].root == w.a.root {
					r.HarnessError("variant " + v + " has the root of A")
					return
				}
			}
			worlds[s] = w
		}
		newDB := func(w *c47vWorld, variant string) ethdb.Database {
			db := rawdb.NewMemoryDatabase()
			for _, h := range []*types.Header{w.headerA, w.headerB[variant]} {
				rawdb.WriteHeader(db, h)
				rawdb.WriteCanonicalHash(db, h.Hash(), h.Number.Uint64())
			}
			return db
		}
		type wk struct {
			scheme string
			wi     int
		}
		maxK := map[wk]int{}
		for _, s := range schemes {
			for wi, wh := range withholds {
				for rep := 0; rep < 2; rep++ {
					res := c47vCycle(t, newDB(worlds[s], "same"), worlds[s].a, worlds[s].headerA, c47vOpts{withhold: wh.fn(worlds[s].names)})
					if res.deliveries > maxK[wk{s, wi}] {
						maxK[wk{s, wi}] = res.deliveries
					}
				}
				r.Bound(fmt.Sprintf("answers.%s.%s%s", s, wh.Kind, wh.Target), maxK[wk{s, wi}])
			}
		}
		if r.Replaying() {
			for k := range maxK {
				maxK[k] = 40
			}
		}
		var cases []c47vCase
		for _, s := range schemes {
			for _, v := range variants {
				for wi, wh := range withholds {
					for k := 0; k <= maxK[wk{s, wi}]; k++ {
						cases = append(cases, c47vCase{"snap2", s, v, wh, k})
					}
				}
			}
		}
		r.Bound("runs", len(cases))
		r.Parallel(len(cases), func(i int) {
			c := cases[i]
			w := worlds[c.Scheme]
			a, b := w.a, w.b[c.Variant]
			var outcome string
			r.Case(c, func() error {
				db := newDB(w, c.Variant)
				r1 := c47vCycle(t, db, a, w.headerA, c47vOpts{withhold: c.Withhold.fn(w.names), cancelAfter: c.CancelAt})
				if r1.hook != nil {
					return fmt.Errorf("cycle 1: %v", r1.hook)
				}
				if errors.Is(r1.err, errC47Panic) {
					return fmt.Errorf("cycle 1: %v", r1.err)
				}
				if r1.stalled {
					outcome = "cycle1-watchdog"
					return nil
				}
				first := "interrupted"
				if r1.err == nil {
					first = "completed"
					if r1.phase != phaseComplete {
						return fmt.Errorf("cycle 1 returned nil in phase %d", r1.phase)
					}
					if err := c47CheckComplete(db, a); err != nil {
						return fmt.Errorf("cycle 1 completed: %v", err)
					}
				}
				moved := c.Variant != "same"
				r2 := c47vCycle(t, db, b, w.headerB[c.Variant], c47vOpts{bals: w.bals[c.Variant], looseRoot: moved})
				where := fmt.Sprintf("cycle 2 (after cycle 1 %s, %d answers handed over in total, %v)", first, r1.deliveries, r1.err)
				if r2.hook != nil {
					return fmt.Errorf("%s: %v", where, r2.hook)
				}
				if errors.Is(r2.err, errC47Panic) {
					return fmt.Errorf("%s: %v", where, r2.err)
				}
				if r2.stalled {
					outcome = "cycle2-watchdog"
					return nil
				}
				if r2.err != nil {
					outcome = "cycle2-error:" + r2.err.Error()
					return nil
				}
				if r2.phase != phaseComplete {
					return fmt.Errorf("%s returned nil in phase %d", where, r2.phase)
				}
				// every code blob referenced by the final target: present and hashing to its key
				for _, e := range b.accElems {
					acc := new(types.StateAccount)
					if err := rlp.DecodeBytes(e.v, acc); err != nil {
						return err
					}
					if h := common.BytesToHash(acc.CodeHash); h != types.EmptyCodeHash {
						blob := rawdb.ReadCode(db, h)
						if len(blob) == 0 {
							return fmt.Errorf("%s returned nil, but the code %x of account %s (%x) is missing from the database", where, h, w.names.name[common.BytesToHash(e.k)], e.k)
						}
						if crypto.Keccak256Hash(blob) != h {
							return fmt.Errorf("%s returned nil, but the code stored for %x hashes to %x", where, h, crypto.Keccak256Hash(blob))
						}
					}
				}
				if err := c47CheckCompleteOpt(db, b, moved); err != nil {
					return fmt.Errorf("%s returned nil: %v", where, err)
				}
				outcome = fmt.Sprintf("cycle1-%s,resumed-on-%s", first, map[bool]string{false: "same-pivot", true: "moved-pivot"}[moved])
				return nil
			})
			if outcome == "" {
				return
			}
			if outcome == "cycle1-watchdog" || outcome == "cycle2-watchdog" {
				r.NotExhaustive("a run had to be cancelled by the 60 s watchdog")
			}
			r.Outcome(outcome)
			r.DistinctHash(mc.Hash64(fmt.Sprint(c)))
			if i%211 == 0 {
				r.Sample(c)
			}
		})
	})
}
