//go:build verif

package snap

// C48 - snap protocol server responses are valid for any request.
//
// The four Service*Query functions of handlers.go are driven with complete
// request grids over small real BlockChains (hash scheme + snapshot, path scheme)
// and every response is judged by (a) the ground truth read from the state trie
// at the requested root with the trie iterator (the server reads the flat
// snapshot / pathdb iterators instead), and (b) the client's own acceptance logic
// (trie.VerifyRangeProof with the parameters syncer.OnAccounts/OnStorage use,
// the hash cross-referencing of OnByteCodes/OnTrieNodes).

import (
	"bytes"
	"errors"
	"fmt"
	"math/big"
	"sort"
	"testing"
	"time"

	"github.com/ethereum/go-ethereum/common"
	"github.com/ethereum/go-ethereum/consensus/ethash"
	"github.com/ethereum/go-ethereum/core"
	"github.com/ethereum/go-ethereum/core/rawdb"
	"github.com/ethereum/go-ethereum/core/types"
	"github.com/ethereum/go-ethereum/crypto"
	"github.com/ethereum/go-ethereum/internal/verif/mc"
	"github.com/ethereum/go-ethereum/params"
	"github.com/ethereum/go-ethereum/rlp"
	"github.com/ethereum/go-ethereum/trie"
	"github.com/ethereum/go-ethereum/trie/trienode"
)

type c48Acct struct {
	hash common.Hash
	full []byte
	slim []byte
	acc  types.StateAccount
}

type c48Slot struct {
	hash common.Hash
	val  []byte
}

type c48Node struct {
	path []byte // hex nibbles, no terminator
	hash common.Hash
	blob []byte
}

// c48Truth is the content of one state root as read from the Merkle trie.
type c48Truth struct {
	root     common.Hash
	accts    []c48Acct
	byHash   map[common.Hash]int
	storage  map[common.Hash][]c48Slot
	accNodes []c48Node
	stNodes  map[common.Hash][]c48Node
}

type c48World struct {
	name   string
	state  int
	scheme string
	chain  *core.BlockChain
	truths []*c48Truth // 0 = head, 1 = parent, 2 = genesis
	codes  map[common.Hash][]byte
	named  map[string]common.Hash // account name -> account hash
}

var (
	c48CodeX = []byte{0x60, 0x01, 0x60, 0x02, 0x01, 0x50, 0x00}
	c48CodeY = bytes.Repeat([]byte{0x5b}, 150)
)

func c48Addr(i int) common.Address { return common.BytesToAddress([]byte{0xc4, 0x80, byte(i)}) }

func c48Storage(n int) map[common.Hash]common.Hash {
	m := map[common.Hash]common.Hash{}
	for i := 0; i < n; i++ {
		k := common.BytesToHash([]byte{byte(i)})
		var v common.Hash
		switch i % 3 {
		case 0:
			v = common.BytesToHash([]byte{byte(i + 1)}) // 1-byte value
		case 1:
			v = common.BytesToHash(bytes.Repeat([]byte{0xa0 + byte(i)}, 32)) // full-width value
		default:
			v = common.BytesToHash(bytes.Repeat([]byte{byte(i + 1)}, 9))
		}
		m[k] = v
	}
	return m
}

// c48Alloc returns the genesis allocation of state number st, the coinbase of the
// generated blocks (an allocated account, so that its balance differs per root)
// and the names of the interesting accounts.
func c48Alloc(st int) (types.GenesisAlloc, common.Address, map[string]common.Address) {
	ga := types.GenesisAlloc{}
	names := map[string]common.Address{}
	switch st {
	case 0: // a single account: the account trie is one leaf
		ga[c48Addr(1)] = types.Account{Balance: big.NewInt(1)}
	case 1: // six accounts, two sharing one code
		for i := 1; i <= 4; i++ {
			ga[c48Addr(i)] = types.Account{Balance: new(big.Int).Lsh(big.NewInt(int64(i)), uint(20*i)), Nonce: uint64(i - 1)}
		}
		ga[c48Addr(5)] = types.Account{Balance: big.NewInt(5), Code: c48CodeX}
		ga[c48Addr(6)] = types.Account{Balance: big.NewInt(0), Code: c48CodeX, Nonce: 1}
	default: // storage: A 12 slots, B code but no storage, C 3 slots, D 1 slot, three plain accounts
		ga[c48Addr(1)] = types.Account{Balance: big.NewInt(1)}
		ga[c48Addr(2)] = types.Account{Balance: big.NewInt(1 << 40), Nonce: 7}
		ga[c48Addr(3)] = types.Account{Balance: big.NewInt(3)}
		ga[c48Addr(10)] = types.Account{Balance: big.NewInt(10), Code: c48CodeX, Storage: c48Storage(12)}
		ga[c48Addr(11)] = types.Account{Balance: big.NewInt(11), Code: c48CodeY}
		ga[c48Addr(12)] = types.Account{Balance: big.NewInt(12), Code: c48CodeX, Storage: c48Storage(3)}
		ga[c48Addr(13)] = types.Account{Balance: big.NewInt(13), Nonce: 1, Storage: c48Storage(1)}
		names["A"], names["B"], names["C"], names["D"], names["E"] = c48Addr(10), c48Addr(11), c48Addr(12), c48Addr(13), c48Addr(2)
	}
	return ga, c48Addr(1), names
}

func c48ReadNodes(tr *trie.Trie) ([]c48Node, error) {
	var out []c48Node
	it, err := tr.NodeIterator(nil)
	if err != nil {
		return nil, err
	}
	for it.Next(true) {
		if it.Leaf() || it.Hash() == (common.Hash{}) {
			continue
		}
		blob := common.CopyBytes(it.NodeBlob())
		if crypto.Keccak256Hash(blob) != it.Hash() {
			return nil, fmt.Errorf("node at %x: blob does not hash to %x", it.Path(), it.Hash())
		}
		out = append(out, c48Node{path: common.CopyBytes(it.Path()), hash: it.Hash(), blob: blob})
	}
	return out, it.Error()
}

func c48ReadTruth(chain *core.BlockChain, root common.Hash) (*c48Truth, error) {
	return c48ReadTruthOpt(chain, root, true)
}

// c48ReadTruthOpt: withNodes=false skips the collection of trie nodes (only leaves are needed for range requests).
func c48ReadTruthOpt(chain *core.BlockChain, root common.Hash, withNodes bool) (*c48Truth, error) {
	t := &c48Truth{root: root, byHash: map[common.Hash]int{}, storage: map[common.Hash][]c48Slot{}, stNodes: map[common.Hash][]c48Node{}}
	tr, err := trie.New(trie.StateTrieID(root), chain.TrieDB())
	if err != nil {
		return nil, err
	}
	it := trie.NewIterator(tr.MustNodeIterator(nil))
	for it.Next() {
		var a c48Acct
		a.hash = common.BytesToHash(it.Key)
		a.full = common.CopyBytes(it.Value)
		if err := rlp.DecodeBytes(a.full, &a.acc); err != nil {
			return nil, err
		}
		a.slim = types.SlimAccountRLP(a.acc)
		t.byHash[a.hash] = len(t.accts)
		t.accts = append(t.accts, a)
	}
	if it.Err != nil {
		return nil, it.Err
	}
	if withNodes {
		if t.accNodes, err = c48ReadNodes(tr); err != nil {
			return nil, err
		}
	}
	for _, a := range t.accts {
		if a.acc.Root == types.EmptyRootHash {
			continue
		}
		st, err := trie.New(trie.StorageTrieID(root, a.hash, a.acc.Root), chain.TrieDB())
		if err != nil {
			return nil, err
		}
		sit := trie.NewIterator(st.MustNodeIterator(nil))
		var slots []c48Slot
		for sit.Next() {
			slots = append(slots, c48Slot{common.BytesToHash(sit.Key), common.CopyBytes(sit.Value)})
		}
		if sit.Err != nil {
			return nil, sit.Err
		}
		t.storage[a.hash] = slots
		if withNodes {
			if t.stNodes[a.hash], err = c48ReadNodes(st); err != nil {
				return nil, err
			}
		}
	}
	return t, nil
}

// c48CrossCheckGenesis compares the trie-derived truth of the genesis root with
// the allocation it was built from (second, independent derivation).
func c48CrossCheckGenesis(t *c48Truth, ga types.GenesisAlloc) error {
	if len(t.accts) != len(ga) {
		return fmt.Errorf("genesis trie has %d accounts, alloc %d", len(t.accts), len(ga))
	}
	for addr, g := range ga {
		h := crypto.Keccak256Hash(addr[:])
		i, ok := t.byHash[h]
		if !ok {
			return fmt.Errorf("alloc account %x missing in trie", addr)
		}
		a := t.accts[i]
		if a.acc.Nonce != g.Nonce || a.acc.Balance.ToBig().Cmp(g.Balance) != 0 || !bytes.Equal(a.acc.CodeHash, crypto.Keccak256(g.Code)) {
			return fmt.Errorf("alloc account %x differs from trie", addr)
		}
		want := map[common.Hash][]byte{}
		for k, v := range g.Storage {
			enc, _ := rlp.EncodeToBytes(common.TrimLeftZeroes(v[:]))
			want[crypto.Keccak256Hash(k[:])] = enc
		}
		if len(want) != len(t.storage[h]) {
			return fmt.Errorf("alloc account %x: %d slots in trie, %d in alloc", addr, len(t.storage[h]), len(want))
		}
		for _, s := range t.storage[h] {
			if !bytes.Equal(want[s.hash], s.val) {
				return fmt.Errorf("alloc account %x slot %x differs", addr, s.hash)
			}
		}
	}
	return nil
}

func c48BuildWorld(st int, scheme string) (*c48World, error) {
	ga, coinbase, names := c48Alloc(st)
	gspec := &core.Genesis{Config: params.TestChainConfig, Alloc: ga}
	_, blocks, _ := core.GenerateChainWithGenesis(gspec, ethash.NewFaker(), 2, func(i int, gen *core.BlockGen) {
		gen.SetCoinbase(coinbase)
	})
	options := &core.BlockChainConfig{
		TrieCleanLimit: 0,
		TrieDirtyLimit: 0,
		TrieTimeLimit:  5 * time.Minute,
		NoPrefetch:     true,
		SnapshotLimit:  100,
		SnapshotWait:   true,
		StateScheme:    scheme,
	}
	bc, err := core.NewBlockChain(rawdb.NewMemoryDatabase(), gspec, ethash.NewFaker(), options)
	if err != nil {
		return nil, err
	}
	if _, err := bc.InsertChain(blocks); err != nil {
		return nil, err
	}
	if scheme == rawdb.PathScheme {
		// flat-state generation runs in the background; wait for it (synchronisation, no verdict).
		for i := 0; !bc.TrieDB().SnapshotCompleted(); i++ {
			if i > 20000 {
				return nil, errors.New("pathdb state generation did not complete")
			}
			time.Sleep(time.Millisecond)
		}
	}
	w := &c48World{name: fmt.Sprintf("s%d-%s", st, scheme), state: st, scheme: scheme, chain: bc, codes: map[common.Hash][]byte{}, named: map[string]common.Hash{}}
	roots := []common.Hash{blocks[1].Root(), blocks[0].Root(), bc.Genesis().Root()}
	for _, root := range roots {
		t, err := c48ReadTruth(bc, root)
		if err != nil {
			return nil, fmt.Errorf("reading truth at %x: %v", root, err)
		}
		w.truths = append(w.truths, t)
	}
	if roots[0] == roots[1] || roots[1] == roots[2] {
		return nil, errors.New("roots do not differ between blocks")
	}
	if err := c48CrossCheckGenesis(w.truths[2], ga); err != nil {
		return nil, err
	}
	for _, g := range ga {
		if len(g.Code) > 0 {
			w.codes[crypto.Keccak256Hash(g.Code)] = g.Code
		}
	}
	for n, a := range names {
		w.named[n] = crypto.Keccak256Hash(a[:])
	}
	return w, nil
}

func c48Inc(h common.Hash, d int64) (common.Hash, bool) {
	x := new(big.Int).Add(h.Big(), big.NewInt(d))
	if x.Sign() < 0 || x.BitLen() > 256 {
		return common.Hash{}, false
	}
	return common.BigToHash(x), true
}

// c48Boundaries: 00.., ff.., and k-1, k, k+1 for every key; sorted, unique.
func c48Boundaries(keys []common.Hash) []common.Hash {
	set := map[common.Hash]struct{}{{}: {}, common.MaxHash: {}}
	for _, k := range keys {
		set[k] = struct{}{}
		for _, d := range []int64{-1, 1} {
			if x, ok := c48Inc(k, d); ok {
				set[x] = struct{}{}
			}
		}
	}
	out := make([]common.Hash, 0, len(set))
	for k := range set {
		out = append(out, k)
	}
	sort.Slice(out, func(i, j int) bool { return bytes.Compare(out[i][:], out[j][:]) < 0 })
	return out
}

func c48ProofSet(proof [][]byte) *trienode.ProofSet {
	nodes := make(trienode.ProofList, 0, len(proof))
	for _, n := range proof {
		nodes = append(nodes, n)
	}
	return nodes.Set()
}

func c48Min(a, b uint64) uint64 {
	if a < b {
		return a
	}
	return b
}

// c48CheckAccounts judges one account-range response. t == nil: the root is unknown to the server.
func c48CheckAccounts(t *c48Truth, root, origin, limit common.Hash, budget uint64, accs []*AccountData, proof [][]byte) (string, error) {
	if t == nil {
		if len(accs) != 0 || len(proof) != 0 {
			return "", fmt.Errorf("unknown root answered with %d accounts and %d proof nodes", len(accs), len(proof))
		}
		return "refused:unknown-root", nil
	}
	idx := sort.Search(len(t.accts), func(i int) bool { return bytes.Compare(t.accts[i].hash[:], origin[:]) >= 0 })
	exp := t.accts[idx:]
	n := len(accs)
	if n > len(exp) {
		return "", fmt.Errorf("%d accounts returned, only %d exist at or after the origin", n, len(exp))
	}
	b := c48Min(budget, softResponseLimit)
	var size, before uint64
	for i, a := range accs {
		if a.Hash != exp[i].hash {
			return "", fmt.Errorf("account #%d is %x, but the %d-th account at/after origin is %x: not a contiguous prefix of the true range", i, a.Hash, i, exp[i].hash)
		}
		if !bytes.Equal(a.Body, exp[i].slim) {
			return "", fmt.Errorf("account #%d (%x) body %x, trie has %x (slim)", i, a.Hash, a.Body, exp[i].slim)
		}
		if i < n-1 && bytes.Compare(a.Hash[:], limit[:]) >= 0 {
			return "", fmt.Errorf("account #%d (%x) is at/after the limit but %d more follow", i, a.Hash, n-1-i)
		}
		before = size
		size += uint64(common.HashLength + len(a.Body))
	}
	if n > 1 && before > b {
		return "", fmt.Errorf("byte budget %d exceeded beyond the first item: %d bytes were already accumulated before the last of %d accounts", b, before, n)
	}
	if n == 0 && len(exp) > 0 {
		return "", fmt.Errorf("no account returned although %d exist at/after the origin", len(exp))
	}
	outcome := "tail-complete"
	if n > 0 && n < len(exp) {
		last := accs[n-1].Hash
		switch {
		case bytes.Compare(last[:], limit[:]) >= 0:
			outcome = "cut-by-limit"
		case size > b:
			outcome = "cut-by-budget"
		default:
			return "", fmt.Errorf("stopped after %d of %d accounts although the limit was not reached and only %d of %d bytes were used", n, len(exp), size, b)
		}
	}
	if n == 0 {
		outcome = "empty-range"
	}
	if n == 1 && size > b {
		outcome += "+first-item-over-budget"
	}
	if len(proof) > 128 {
		return "", fmt.Errorf("%d proof nodes: the client rejects more than 128", len(proof))
	}
	if n == 0 && len(proof) == 0 {
		if len(t.accts) != 0 {
			return "", errors.New("empty response without proof for a known non-empty state (the client reads this as 'state unavailable')")
		}
		return "empty-state", nil
	}
	keys := make([][]byte, n)
	vals := make([][]byte, n)
	for i, a := range accs {
		keys[i] = common.CopyBytes(a.Hash[:])
		full, err := types.FullAccountRLP(a.Body)
		if err != nil {
			return "", fmt.Errorf("account #%d body does not decode: %v", i, err)
		}
		vals[i] = full
	}
	cont, err := trie.VerifyRangeProof(root, origin[:], keys, vals, c48ProofSet(proof))
	if err != nil {
		return "", fmt.Errorf("client verification (VerifyRangeProof with the request origin) failed: %v", err)
	}
	if more := idx+n < len(t.accts); cont != more {
		return "", fmt.Errorf("VerifyRangeProof reports more=%v, the trie has more=%v", cont, more)
	}
	return outcome, nil
}

const c48F1Key = "storage range with zero/absent origin cut by the limit hash is served without Merkle proof"

// c48CheckStorage judges one storage-ranges response. finding is set when the
// response falls into the class described by c48F1Key (reported once, under that key).
func c48CheckStorage(t *c48Truth, accounts []common.Hash, originB, limitB []byte, budget uint64, slots [][]*StorageData, proof [][]byte) (outcome string, finding bool, err error) {
	if t == nil {
		if len(slots) != 0 || len(proof) != 0 {
			return "", false, fmt.Errorf("unknown root answered with %d slot sets and %d proof nodes", len(slots), len(proof))
		}
		return "refused:unknown-root", false, nil
	}
	var origin common.Hash
	if len(originB) > 0 {
		origin = common.BytesToHash(originB)
	}
	limit := common.MaxHash
	if len(limitB) > 0 {
		limit = common.BytesToHash(limitB)
	}
	b := c48Min(budget, softResponseLimit)
	hard := b + b/10
	clean := true
	for _, a := range accounts {
		if len(t.storage[a]) == 0 {
			clean = false
		}
	}
	if len(slots) > len(accounts) {
		return "", false, fmt.Errorf("%d slot sets for %d requested accounts", len(slots), len(accounts))
	}
	if len(proof) > 128 {
		return "", false, fmt.Errorf("%d proof nodes: the client rejects more than 128", len(proof))
	}
	if !clean {
		// Requests naming unknown accounts or accounts without storage are outside the
		// client's contract (it only asks for accounts whose storage root is non-empty).
		// Demanded: no panic, genuine data, budget.
		var total uint64
		for i, set := range slots {
			if len(set) == 0 {
				return "", false, fmt.Errorf("slot set #%d is empty", i)
			}
			ok := false
			for _, a := range accounts {
				truth := t.storage[a]
				k := sort.Search(len(truth), func(x int) bool { return bytes.Compare(truth[x].hash[:], set[0].Hash[:]) >= 0 })
				if k+len(set) > len(truth) {
					continue
				}
				match := true
				for j, s := range set {
					if s.Hash != truth[k+j].hash || !bytes.Equal(s.Body, truth[k+j].val) {
						match = false
						break
					}
				}
				if match {
					ok = true
					break
				}
			}
			if !ok {
				return "", false, fmt.Errorf("slot set #%d is not a contiguous run of any requested account's storage", i)
			}
			for _, s := range set {
				if total > hard {
					return "", false, fmt.Errorf("hard limit %d exceeded: %d bytes accumulated before another slot", hard, total)
				}
				total += uint64(common.HashLength + len(s.Body))
			}
		}
		return fmt.Sprintf("outside-contract:sets=%d,proof=%v", len(slots), len(proof) > 0), false, nil
	}
	rootOf := func(a common.Hash) common.Hash { return t.accts[t.byHash[a]].acc.Root }
	if len(slots) == 0 && len(proof) == 0 {
		if b == 0 {
			return "refused:zero-budget", false, nil
		}
		return "", false, errors.New("empty response without proof although the state is available and the budget is non-zero")
	}
	if len(slots) == 0 {
		truth := t.storage[accounts[0]]
		if k := sort.Search(len(truth), func(x int) bool { return bytes.Compare(truth[x].hash[:], origin[:]) >= 0 }); k < len(truth) {
			return "", false, fmt.Errorf("no slot returned although %d exist at/after the origin", len(truth)-k)
		}
		cont, err := trie.VerifyRangeProof(rootOf(accounts[0]), origin[:], nil, nil, c48ProofSet(proof))
		if err != nil {
			return "", false, fmt.Errorf("client verification of the empty range failed: %v", err)
		}
		if cont {
			return "", false, errors.New("empty range verified with more=true")
		}
		return "empty-range-proved", false, nil
	}
	var total uint64
	for i, set := range slots {
		acct := accounts[i]
		truth := t.storage[acct]
		var start common.Hash
		lim := common.MaxHash
		if i == 0 {
			start, lim = origin, limit
		}
		if len(set) == 0 {
			return "", false, fmt.Errorf("slot set #%d is empty", i)
		}
		if i > 0 && total >= b {
			return "", false, fmt.Errorf("account #%d opened although %d bytes >= budget %d were already accumulated", i, total, b)
		}
		idx := sort.Search(len(truth), func(x int) bool { return bytes.Compare(truth[x].hash[:], start[:]) >= 0 })
		if idx+len(set) > len(truth) {
			return "", false, fmt.Errorf("set #%d has %d slots, only %d exist at/after the origin", i, len(set), len(truth)-idx)
		}
		keys := make([][]byte, len(set))
		vals := make([][]byte, len(set))
		for j, s := range set {
			if s.Hash != truth[idx+j].hash {
				return "", false, fmt.Errorf("set #%d slot #%d is %x, the true range continues with %x: not a contiguous prefix", i, j, s.Hash, truth[idx+j].hash)
			}
			if !bytes.Equal(s.Body, truth[idx+j].val) {
				return "", false, fmt.Errorf("set #%d slot %x value %x, trie has %x", i, s.Hash, s.Body, truth[idx+j].val)
			}
			if j < len(set)-1 && bytes.Compare(s.Hash[:], lim[:]) >= 0 {
				return "", false, fmt.Errorf("set #%d slot #%d (%x) is at/after the limit but more follow", i, j, s.Hash)
			}
			if total > hard {
				return "", false, fmt.Errorf("hard limit %d (budget %d + 10%%) exceeded: %d bytes accumulated before slot #%d of set #%d", hard, b, total, j, i)
			}
			total += uint64(common.HashLength + len(s.Body))
			keys[j], vals[j] = common.CopyBytes(s.Hash[:]), s.Body
		}
		completeRight := idx+len(set) == len(truth)
		lastKey := set[len(set)-1].Hash
		cutByLimit := i == 0 && bytes.Compare(lastKey[:], limit[:]) >= 0
		if i == 0 && start == (common.Hash{}) && cutByLimit && !completeRight && len(slots) > 1 {
			// same class as c48F1Key: the limit ended the first set, no proof was attached and the
			// server went on to the next account; the following sets are still judged.
			finding = true
			continue
		}
		if i < len(slots)-1 {
			if !completeRight || start != (common.Hash{}) {
				return "", false, fmt.Errorf("non-final slot set #%d is partial (the client verifies it as a whole storage trie)", i)
			}
			if _, err := trie.VerifyRangeProof(rootOf(acct), nil, keys, vals, nil); err != nil {
				return "", false, fmt.Errorf("client verification of complete set #%d failed: %v", i, err)
			}
			continue
		}
		// final set
		if !completeRight && !cutByLimit && total+1 < hard {
			return "", false, fmt.Errorf("final set stopped after %d of %d slots although the limit was not reached and only %d bytes (hard limit %d) were used", len(set), len(truth)-idx, total, hard)
		}
		if len(proof) == 0 {
			_, verr := trie.VerifyRangeProof(rootOf(acct), nil, keys, vals, nil)
			if completeRight && start == (common.Hash{}) {
				if verr != nil {
					return "", false, fmt.Errorf("client verification of complete final set failed: %v", verr)
				}
				if len(slots) < len(accounts) && total < b {
					return "", false, fmt.Errorf("only %d of %d accounts served although %d bytes < budget %d", len(slots), len(accounts), total, b)
				}
				outcome = "whole-storage"
				if len(slots) < len(accounts) {
					outcome = "whole-storage,accounts-cut-by-budget"
				}
				if finding {
					outcome = "FINDING:zero-origin-limit-cut-unproven,multi"
				}
				return outcome, finding, nil
			}
			if verr == nil {
				return "", false, errors.New("harness: partial range verified as whole trie")
			}
			if start == (common.Hash{}) && cutByLimit && len(slots) == 1 {
				return "FINDING:zero-origin-limit-cut-unproven", true, nil
			}
			return "", false, fmt.Errorf("partial final set (origin %x, %d of %d slots) without proof: client verification fails with %v", start, len(set), len(truth), verr)
		}
		cont, verr := trie.VerifyRangeProof(rootOf(acct), start[:], keys, vals, c48ProofSet(proof))
		if verr != nil {
			return "", false, fmt.Errorf("client verification (VerifyRangeProof, origin %x) of the final set failed: %v", start, verr)
		}
		if cont != !completeRight {
			return "", false, fmt.Errorf("VerifyRangeProof reports more=%v, the trie has more=%v", cont, !completeRight)
		}
		if completeRight && start == (common.Hash{}) {
			return "", false, errors.New("proof attached although the whole storage trie is in the response")
		}
		switch {
		case completeRight:
			outcome = "proved-tail"
		case cutByLimit:
			outcome = "proved-cut-by-limit"
		default:
			outcome = "proved-cut-by-budget"
		}
		if len(slots) > 1 {
			outcome += ",multi"
		}
		if finding {
			outcome = "FINDING:zero-origin-limit-cut-unproven,multi"
		}
	}
	return outcome, finding, nil
}

func c48Hex(b []byte) string { return fmt.Sprintf("%x", b) }

type c48AccCase struct {
	Kind   string `json:"kind"`
	World  string `json:"world"`
	Root   string `json:"root"`
	Origin string `json:"origin"`
	Limit  string `json:"limit"`
	Bytes  uint64 `json:"bytes"`
}

type c48StoCase struct {
	Kind     string   `json:"kind"`
	World    string   `json:"world"`
	Root     string   `json:"root"`
	Accounts []string `json:"accounts"`
	Origin   string   `json:"origin"`
	Limit    string   `json:"limit"`
	Bytes    uint64   `json:"bytes"`
}

func TestVerif_C48(t *testing.T) {
	mc.Run(t, "C48", func(r *mc.R) {
		r.Rule("[accounts] per world (3 genesis states x {hash scheme+snapshot, path scheme}) and root {head, parent, genesis, unknown}: all (origin, limit) pairs over {00.., ff.., k-1, k, k+1 for every account hash k} x byte budgets; " +
			"[storage] per storage world: account lists x all (origin, limit) pairs over {absent, 00.., ff.., k-1, k, k+1 for every slot hash of the first account} x byte budgets; " +
			"[codes] all hash lists of length <=3 over {code X, code Y, empty code, unknown} x budgets; [nodes] every node path of the account and storage tries singly, all in one request per budget, malformed path sets; " +
			"distinct = distinct (request kind, response) fingerprints")
		r.Assume("ground truth = leaves/nodes of the Merkle trie at the requested root read with trie.NodeIterator (cross-checked against the genesis allocation); the server reads the flat snapshot/pathdb iterators")
		r.Assume("client acceptance = trie.VerifyRangeProof with the parameters used by syncer.OnAccounts/OnStorage (trusted here, checked by C09)")

		c48T0 := time.Now()
		worlds := make([]*c48World, 6)
		errs := make([]error, 6)
		r.Parallel(6, func(i int) {
			worlds[i], errs[i] = c48BuildWorld(i/2, []string{rawdb.HashScheme, rawdb.PathScheme}[i%2])
		})
		for i, w := range worlds {
			if w == nil || errs[i] != nil {
				r.HarnessError(fmt.Sprintf("world %d: %v", i, errs[i]))
				return
			}
			defer w.chain.Stop()
		}
		r.Bound("worlds", len(worlds))
		lap := func(name string) {
			r.Bound("wall_s."+name, fmt.Sprintf("%.1f", time.Since(c48T0).Seconds()))
		}
		lap("worlds")
		c48Accounts(r, worlds)
		lap("accounts")
		c48StorageRanges(r, worlds)
		lap("storage")
		c48ByteCodes(r, worlds)
		lap("codes")
		c48TrieNodes(r, worlds)
		lap("nodes")
	})
}

var c48UnknownRoot = common.HexToHash("0xdeadbeefdeadbeefdeadbeefdeadbeefdeadbeefdeadbeefdeadbeefdeadbeef")

func c48Accounts(r *mc.R, worlds []*c48World) {
	budgets := []uint64{0, 1, 60, 100, 137, 250, 500, 1_000_000, 1 << 40}
	type shard struct {
		w      *c48World
		ti     int // truth index, -1 = unknown root
		origin common.Hash
	}
	var shards []shard
	for _, w := range worlds {
		var keys []common.Hash
		for _, a := range w.truths[0].accts {
			keys = append(keys, a.hash)
		}
		bs := c48Boundaries(keys)
		r.Bound("accounts."+w.name+".boundaries", len(bs))
		for ti := -1; ti < len(w.truths); ti++ {
			for oi, o := range bs {
				if ti < 0 && oi%5 != 0 {
					continue // unknown root: a fifth of the origins
				}
				shards = append(shards, shard{w, ti, o})
			}
		}
	}
	r.Bound("accounts.budgets", budgets)
	r.Parallel(len(shards), func(si int) {
		sh := shards[si]
		w := sh.w
		var keys []common.Hash
		for _, a := range w.truths[0].accts {
			keys = append(keys, a.hash)
		}
		bs := c48Boundaries(keys)
		var tr *c48Truth
		root := c48UnknownRoot
		if sh.ti >= 0 {
			tr = w.truths[sh.ti]
			root = tr.root
		}
		for _, limit := range bs {
			for _, budget := range budgets {
				c := c48AccCase{"accounts", w.name, c48Hex(root[:]), c48Hex(sh.origin[:]), c48Hex(limit[:]), budget}
				var outcome string
				var fp string
				r.Case(c, func() error {
					req := &GetAccountRangePacket{ID: 1, Root: root, Origin: sh.origin, Limit: limit, Bytes: budget}
					accs, proof := ServiceGetAccountRangeQuery(w.chain, req)
					var err error
					outcome, err = c48CheckAccounts(tr, root, sh.origin, limit, budget, accs, proof)
					fp = fmt.Sprintf("A|%s|%x|%x|%d|%d", w.name, root, sh.origin, len(accs), len(proof))
					return err
				})
				if outcome != "" {
					r.Outcome("accounts:" + outcome)
					r.DistinctHash(mc.Hash64(fp))
				}
				if budget == 100 && limit == bs[len(bs)/2] {
					r.Sample(c)
				}
			}
		}
	})
}

func c48StorageRanges(r *mc.R, worlds []*c48World) {
	budgets := []uint64{0, 1, 50, 100, 200, 300, 500, 1_000_000}
	type shard struct {
		w      *c48World
		ti     int
		list   []string
		origin []byte
	}
	lists := [][]string{{"A"}, {"C"}, {"D"}, {"A", "C"}, {"C", "A"}, {"C", "C"}, {"D", "C", "A"}, // inside the client's contract
		{"B"}, {"U"}, {"E"}, {"B", "A"}, {"A", "U", "C"}, {"C", "B", "A"}} // unknown / storage-less accounts
	var shards []shard
	bounds := func(w *c48World, first string) [][]byte {
		var keys []common.Hash
		for _, s := range w.truths[0].storage[w.named[first]] {
			keys = append(keys, s.hash)
		}
		if len(keys) == 0 {
			for _, s := range w.truths[0].storage[w.named["C"]] {
				keys = append(keys, s.hash)
			}
		}
		out := [][]byte{nil, {0x80}, append([]byte{0x01}, keys[0][:]...)}
		for _, h := range c48Boundaries(keys) {
			out = append(out, common.CopyBytes(h[:]))
		}
		return out
	}
	for _, w := range worlds {
		if w.state != 2 {
			continue
		}
		w.named["U"] = common.HexToHash("0x1111111111111111111111111111111111111111111111111111111111111111")
		for _, list := range lists {
			for _, ti := range mc.Pick(r, []int{0, -1}, []int{0, 1, 2, -1}) {
				for oi, o := range bounds(w, list[0]) {
					if ti < 0 && oi%6 != 0 {
						continue // unknown root: a sixth of the origins (x 4 limits)
					}
					shards = append(shards, shard{w, ti, list, o})
				}
			}
		}
	}
	r.Bound("storage.budgets", budgets)
	r.Bound("storage.account_lists", lists)
	r.Parallel(len(shards), func(si int) {
		sh := shards[si]
		w := sh.w
		var tr *c48Truth
		root := c48UnknownRoot
		if sh.ti >= 0 {
			tr = w.truths[sh.ti]
			root = tr.root
		}
		accounts := make([]common.Hash, len(sh.list))
		for i, n := range sh.list {
			accounts[i] = w.named[n]
		}
		limits := bounds(w, sh.list[0])
		if sh.ti < 0 {
			limits = limits[:4]
		}
		for _, limit := range limits {
			for _, budget := range budgets {
				c := c48StoCase{"storage", w.name, c48Hex(root[:]), sh.list, c48Hex(sh.origin), c48Hex(limit), budget}
				var outcome, fp string
				var finding bool
				r.Case(c, func() error {
					req := &GetStorageRangesPacket{ID: 1, Root: root, Accounts: append([]common.Hash{}, accounts...),
						Origin: common.CopyBytes(sh.origin), Limit: common.CopyBytes(limit), Bytes: budget}
					slots, proof := ServiceGetStorageRangesQuery(w.chain, req)
					var err error
					outcome, finding, err = c48CheckStorage(tr, accounts, sh.origin, limit, budget, slots, proof)
					n := 0
					for _, s := range slots {
						n = n*100 + len(s)
					}
					fp = fmt.Sprintf("S|%s|%v|%x|%d|%d", w.name, sh.list, sh.origin, n, len(proof))
					return err
				})
				if finding && w.scheme == rawdb.HashScheme && len(sh.list) == 1 && sh.list[0] == "A" && len(sh.origin) == 0 &&
					budget == 1_000_000 && bytes.Equal(limit, tr.storage[accounts[0]][0].hash[:]) {
					r.Violation(c48F1Key, "GetStorageRanges{accounts:[A], origin: absent, limit: first slot hash of A, bytes: 1e6} on a contract with 12 slots returns 1 slot and no proof; "+
						"the client (syncer.OnStorage) verifies a proof-less final set as a whole storage trie, so trie.VerifyRangeProof fails. "+
						"handlers.go ServiceGetStorageRangesQuery attaches proofs only if origin != 0 or the hard byte limit aborted the iteration, not when the limit hash ended it. "+
						"All (zero/absent origin, limit < last slot) requests behave the same (outcome storage:FINDING:...).", c)
				}
				if outcome != "" {
					r.Outcome("storage:" + outcome)
					r.DistinctHash(mc.Hash64(fp))
				}
				if budget == 200 && len(limit) == 32 && limit[0]&0x0f == 3 {
					r.Sample(c)
				}
			}
		}
	})
}

type c48CodeCase struct {
	Kind   string   `json:"kind"`
	World  string   `json:"world"`
	Hashes []string `json:"hashes"`
	Bytes  uint64   `json:"bytes"`
}

func c48ByteCodes(r *mc.R, worlds []*c48World) {
	hx, hy := crypto.Keccak256Hash(c48CodeX), crypto.Keccak256Hash(c48CodeY)
	alpha := []common.Hash{hx, hy, types.EmptyCodeHash, common.HexToHash("0x2222")}
	names := []string{"X", "Y", "empty", "unknown"}
	budgets := []uint64{0, 1, 6, 7, 8, 149, 150, 151, 156, 157, 158, 1_000_000}
	maxLen := mc.Pick(r, 3, 4)
	var lists [][]int
	var gen func(cur []int)
	gen = func(cur []int) {
		lists = append(lists, append([]int{}, cur...))
		if len(cur) == maxLen {
			return
		}
		for a := range alpha {
			gen(append(cur, a))
		}
	}
	gen(nil)
	r.Bound("codes.max_hashes", maxLen)
	r.Bound("codes.budgets", budgets)
	for _, w := range worlds {
		if w.state != 2 {
			continue
		}
		for _, l := range lists {
			hashes := make([]common.Hash, len(l))
			hn := make([]string, len(l))
			for i, a := range l {
				hashes[i], hn[i] = alpha[a], names[a]
			}
			for _, budget := range budgets {
				c := c48CodeCase{"codes", w.name, hn, budget}
				var fp string
				r.Case(c, func() error {
					codes := ServiceGetByteCodesQuery(w.chain, &GetByteCodesPacket{ID: 1, Hashes: append([]common.Hash{}, hashes...), Bytes: budget})
					fp = fmt.Sprintf("C|%v|%d", hn, len(codes))
					// the client's cross-referencing (syncer.onByteCodes): ordered subsequence of the requested hashes
					servable := func(h common.Hash) bool { return h == types.EmptyCodeHash || w.codes[h] != nil }
					var total, before uint64
					j := 0
					for i, code := range codes {
						h := crypto.Keccak256Hash(code)
						for j < len(hashes) && hashes[j] != h {
							if servable(hashes[j]) {
								return fmt.Errorf("code #%d answers a later hash although requested hash #%d (%s) is available and was skipped", i, j, hn[j])
							}
							j++
						}
						if j == len(hashes) {
							return fmt.Errorf("code #%d (%d bytes, hash %x) matches no remaining requested hash: the client rejects the response", i, len(code), h)
						}
						j++
						before = total
						total += uint64(len(code))
					}
					if len(codes) > 1 && before > budget {
						return fmt.Errorf("budget %d exceeded beyond the first item: %d bytes before the last code", budget, before)
					}
					for ; j < len(hashes); j++ {
						if servable(hashes[j]) && total <= budget {
							return fmt.Errorf("requested hash #%d (%s) is available and only %d of %d bytes are used, but it was not served", j, hn[j], total, budget)
						}
					}
					return nil
				})
				if fp != "" {
					r.DistinctHash(mc.Hash64(fp))
					r.Outcome("codes:served")
				}
			}
		}
	}
}

func c48Compact(hex []byte) []byte {
	buf := make([]byte, len(hex)/2+1)
	if len(hex)&1 == 1 {
		buf[0] = 1<<4 | hex[0]
		hex = hex[1:]
	}
	for i := 0; i < len(hex); i += 2 {
		buf[i/2+1] = hex[i]<<4 | hex[i+1]
	}
	return buf
}

type c48NodeCase struct {
	Kind  string   `json:"kind"`
	World string   `json:"world"`
	Root  string   `json:"root"`
	Sets  []string `json:"pathsets"` // RLP of every path set, hex
	Bytes uint64   `json:"bytes"`
}

// c48RunNodes executes one trie-node request. want: for every path set the blobs the
// trie holds at the named paths (nil entry: no such node), or nil when the set is malformed.
func c48RunNodes(r *mc.R, w *c48World, t *c48Truth, root common.Hash, sets [][]byte, want [][][]byte, budget uint64, class string) {
	c := c48NodeCase{"nodes", w.name, c48Hex(root[:]), nil, budget}
	for _, s := range sets {
		c.Sets = append(c.Sets, c48Hex(s))
	}
	var fp string
	r.Case(c, func() error {
		req := &GetTrieNodesPacket{ID: 1, Root: root, Bytes: budget}
		for _, s := range sets {
			if err := req.Paths.AppendRaw(s); err != nil {
				return nil // not an RLP value: cannot be put on the wire
			}
		}
		nodes, err := ServiceGetTrieNodesQuery(w.chain, req)
		fp = fmt.Sprintf("N|%s|%x|%d|%v", w.name, c.Sets, len(nodes), err != nil)
		if t == nil {
			if len(nodes) != 0 {
				return fmt.Errorf("unknown root answered with %d nodes", len(nodes))
			}
			return nil
		}
		// expected sequence up to the first malformed set
		var exp [][]byte
		malformed := false
		for _, ws := range want {
			if ws == nil {
				malformed = true
				break
			}
			exp = append(exp, ws...)
		}
		if len(nodes) > len(exp) {
			return fmt.Errorf("%d nodes returned, at most %d were addressed", len(nodes), len(exp))
		}
		var total, before uint64
		for i, n := range nodes {
			if !bytes.Equal(n, exp[i]) {
				return fmt.Errorf("node #%d: got %d bytes (hash %x), the trie holds %d bytes (hash %x) at the requested path", i, len(n), crypto.Keccak256(n), len(exp[i]), crypto.Keccak256(exp[i]))
			}
			before = total
			total += uint64(len(n))
		}
		if len(nodes) > 1 && before > budget {
			return fmt.Errorf("budget %d exceeded beyond the first item: %d bytes before the last node", budget, before)
		}
		if err != nil {
			if !malformed {
				return fmt.Errorf("well-formed request rejected: %v", err)
			}
			return nil
		}
		if len(nodes) < len(exp) && total <= budget {
			return fmt.Errorf("only %d of %d addressed nodes served although %d bytes <= budget %d", len(nodes), len(exp), total, budget)
		}
		if malformed && len(nodes) == len(exp) && total <= budget {
			return errors.New("malformed path set reached without an error")
		}
		return nil
	})
	if fp != "" {
		r.DistinctHash(mc.Hash64(fp))
		r.Outcome("nodes:" + class)
	}
}

func c48Enc(v any) []byte {
	b, err := rlp.EncodeToBytes(v)
	if err != nil {
		panic(err)
	}
	return b
}

func c48TrieNodes(r *mc.R, worlds []*c48World) {
	budgets := []uint64{0, 1, 100, 300, 600, 1500, 1_000_000}
	r.Bound("nodes.budgets", budgets)
	for _, w := range worlds {
		for ti, t := range w.truths[:2] {
			// every node singly, and every non-existent sibling path
			var allSets [][]byte
			var allWant [][][]byte
			have := map[string]bool{}
			for _, n := range t.accNodes {
				have[string(n.path)] = true
			}
			for _, n := range t.accNodes {
				set := c48Enc([][]byte{c48Compact(n.path)})
				c48RunNodes(r, w, t, t.root, [][]byte{set}, [][][]byte{{n.blob}}, 1_000_000, "account-node")
				allSets, allWant = append(allSets, set), append(allWant, [][]byte{n.blob})
				if ti == 0 && len(n.path) < 6 {
					for x := byte(0); x < 16; x++ {
						p := append(append([]byte{}, n.path...), x)
						if !have[string(p)] {
							c48RunNodes(r, w, t, t.root, [][]byte{c48Enc([][]byte{c48Compact(p)})}, [][][]byte{{nil}}, 1_000_000, "absent-account-path")
						}
					}
				}
			}
			if len(t.accNodes) > 0 && len(t.accNodes[0].path) == 0 {
				c48RunNodes(r, w, t, t.root, [][]byte{c48Enc([][]byte{{}})}, [][][]byte{{t.accNodes[0].blob}}, 1_000_000, "account-root-empty-path")
			}
			var accs []common.Hash
			for a := range t.stNodes {
				accs = append(accs, a)
			}
			sort.Slice(accs, func(i, j int) bool { return bytes.Compare(accs[i][:], accs[j][:]) < 0 })
			for _, a := range accs {
				whole := [][]byte{a[:]}
				var wholeWant [][]byte
				for _, n := range t.stNodes[a] {
					set := c48Enc([][]byte{a[:], c48Compact(n.path)})
					c48RunNodes(r, w, t, t.root, [][]byte{set}, [][][]byte{{n.blob}}, 1_000_000, "storage-node")
					whole, wholeWant = append(whole, c48Compact(n.path)), append(wholeWant, n.blob)
				}
				allSets, allWant = append(allSets, c48Enc(whole)), append(allWant, wholeWant)
			}
			for _, b := range budgets {
				c48RunNodes(r, w, t, t.root, allSets, allWant, b, "all-nodes")
				rev := make([][]byte, len(allSets))
				revWant := make([][][]byte, len(allSets))
				for i := range allSets {
					rev[len(allSets)-1-i], revWant[len(allSets)-1-i] = allSets[i], allWant[i]
				}
				c48RunNodes(r, w, t, t.root, rev, revWant, b, "all-nodes-reversed")
			}
			if ti != 0 {
				continue
			}
			// malformed / odd path sets: all sequences of <= 2 items
			rootBlob := t.accNodes[0].blob
			type item struct {
				raw  []byte
				want [][]byte // nil = malformed
			}
			items := []item{
				{c48Enc([][]byte{{0x00}}), [][]byte{rootBlob}},
				{[]byte{0xc0}, nil},                           // zero-item path set
				{[]byte{0x80}, nil},                           // empty string instead of a list
				{[]byte{0x05}, nil},                           // single byte instead of a list
				{[]byte{0xc1, 0xc0}, nil},                     // account path is a list
				{c48Enc([][]byte{bytes.Repeat([]byte{0x11}, 70)}), [][]byte{nil}}, // over-long account path
				{c48Enc([][]byte{{0x3f, 0xff}}), [][]byte{nil}},                   // terminator flag set on a node path
				{c48Enc([][]byte{{0xff}}), [][]byte{nil}},
				{c48Enc([][]byte{{0x01}, {0x00}}), [][]byte{}},                                       // 1-byte account key: unknown account
				{c48Enc([][]byte{c48UnknownRoot[:], {0x00}}), [][]byte{}},                            // unknown account
				{c48Enc([][]byte{bytes.Repeat([]byte{0x22}, 40), {0x00}}), [][]byte{}},                 // 40-byte account key
			}
			if a, ok := w.named["A"]; ok {
				st := t.stNodes[a]
				items = append(items,
					item{c48Enc([][]byte{a[:], {0x00}, {0x00}}), [][]byte{st[0].blob, st[0].blob}},  // same node twice
					item{append([]byte{0xc0 + 33 + 1}, append(c48Enc(a[:]), 0xc0)...), nil},           // storage path is a list
					item{c48Enc([][]byte{a[:], bytes.Repeat([]byte{0x11}, 70)}), [][]byte{nil}},      // over-long storage path
				)
				if e, ok := w.named["E"]; ok {
					items = append(items, item{c48Enc([][]byte{e[:], {0x00}}), [][]byte{nil}}) // account without storage: empty trie
				}
			}
			for i := -1; i < len(items); i++ {
				for j := range items {
					var sets [][]byte
					var want [][][]byte
					if i >= 0 {
						sets, want = append(sets, items[i].raw), append(want, items[i].want)
					}
					sets, want = append(sets, items[j].raw), append(want, items[j].want)
					for _, b := range []uint64{0, 1_000_000} {
						c48RunNodes(r, w, t, t.root, sets, want, b, "malformed-grid")
					}
				}
			}
			c48RunNodes(r, w, t, t.root, nil, nil, 1_000_000, "no-path-sets")
			c48RunNodes(r, w, nil, c48UnknownRoot, [][]byte{items[0].raw}, [][][]byte{{rootBlob}}, 1_000_000, "unknown-root")
		}
	}
}
