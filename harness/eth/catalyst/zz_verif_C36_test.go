//go:build verif

package catalyst

// C36 (step "engine") — a block built locally is reported VALID when it is
// submitted back through the engine API.
//
// Seam: a full eth.Ethereum service per rule set (real legacy pool and real blob
// pool, real miner), driven only through ConsensusAPI: the pool is filled with
// the enumerated transactions, ForkchoiceUpdatedV3/V4 (head = genesis) with
// payload attributes starts the build, the full payload is fetched, and
// NewPayloadV3/V4/V5 is called with it exactly as a consensus client would
// (versioned hashes derived from the blobs bundle, the execution requests of the
// envelope). The head never moves, so every case builds on genesis; prevRandao is
// unique per case so that no payload id / block hash repeats.
//
// Oracle: NewPayload status VALID with latestValidHash = the payload's hash, the
// block is then known to the chain, the payload carries only pool transactions,
// and transactions the real pools rejected or queued never appear.

import (
	"context"
	"crypto/ecdsa"
	"crypto/sha256"
	"encoding/json"
	"fmt"
	"math/big"
	"sort"
	"sync"
	"testing"
	"time"

	"github.com/ethereum/go-ethereum/beacon/engine"
	"github.com/ethereum/go-ethereum/common"
	"github.com/ethereum/go-ethereum/common/hexutil"
	"github.com/ethereum/go-ethereum/consensus/misc/eip4844"
	"github.com/ethereum/go-ethereum/core"
	"github.com/ethereum/go-ethereum/core/types"
	"github.com/ethereum/go-ethereum/core/vm"
	"github.com/ethereum/go-ethereum/core/vm/program"
	"github.com/ethereum/go-ethereum/crypto"
	"github.com/ethereum/go-ethereum/crypto/kzg4844"
	"github.com/ethereum/go-ethereum/eth"
	"github.com/ethereum/go-ethereum/eth/ethconfig"
	"github.com/ethereum/go-ethereum/internal/verif/mc"
	"github.com/ethereum/go-ethereum/miner"
	"github.com/ethereum/go-ethereum/node"
	"github.com/ethereum/go-ethereum/params"
	"github.com/holiman/uint256"
)

type c36Fork struct {
	name                     string
	cfg                      *params.ChainConfig
	prague, osaka, amsterdam bool
}

func c36U64(v uint64) *uint64 { return &v }

func c36Forks() []c36Fork {
	mk := func(name string, level int) c36Fork {
		cfg := *params.MergedTestChainConfig
		cfg.PragueTime, cfg.OsakaTime, cfg.AmsterdamTime = nil, nil, nil
		cfg.BPO1Time, cfg.BPO2Time, cfg.BPO3Time, cfg.BPO4Time, cfg.BPO5Time = nil, nil, nil, nil, nil
		f := c36Fork{name: name, cfg: &cfg}
		if level >= 1 {
			cfg.PragueTime, f.prague = c36U64(0), true
		}
		if level >= 2 {
			cfg.OsakaTime, f.osaka = c36U64(0), true
		}
		if level >= 3 {
			cfg.AmsterdamTime, f.amsterdam = c36U64(0), true
		}
		return f
	}
	return []c36Fork{mk("cancun", 0), mk("prague", 1), mk("osaka", 2), mk("amsterdam", 3)}
}

var (
	c36Reverter = common.HexToAddress("0x7e00000000000000000000000000000000003601")
	c36Looper   = common.HexToAddress("0x1000000000000000000000000000000000003602")
	c36Adder    = common.HexToAddress("0xad00000000000000000000000000000000003604")
	c36Fresh    = common.HexToAddress("0xf000000000000000000000000000000000003605")
	c36WdAddr   = common.HexToAddress("0x3d00000000000000000000000000000000003607")
	c36FeeRcpt  = common.HexToAddress("0xfe00000000000000000000000000000000003608")
	c36Forwarder = common.HexToAddress("0xf300000000000000000000000000000000003609")
	c36Sink     = common.HexToAddress("0x5100000000000000000000000000000000003610")
	c36EnvRec   = common.HexToAddress("0xe400000000000000000000000000000000003611") // stores every block-context field it can observe
	c36SlotRec  = common.HexToAddress("0xe500000000000000000000000000000000003612") // stores SLOTNUM (Amsterdam)
	c36PrecRec  = common.HexToAddress("0xe600000000000000000000000000000000003613") // STATICCALLs a list of precompiles and stores success flag, return size and gas spent
)

// c36EnvOps: slot k of the environment recorder = value of op k; slot len(c36EnvOps) = BLOCKHASH(NUMBER-1).
var c36EnvOps = []vm.OpCode{vm.NUMBER, vm.TIMESTAMP, vm.PREVRANDAO, vm.COINBASE, vm.GASLIMIT, vm.BASEFEE, vm.BLOBBASEFEE, vm.CHAINID}

// ---------------------------------------------------------------------------
// precompile recorder

// c36PrecCall is one STATICCALL of the precompile recorder.
type c36PrecCall struct {
	name  string
	addr  byte
	input []byte
	fails bool // the precompile's Run returns an error for this (well-sized) input
	level int  // rule-set level from which the address is a precompile: 0 cancun, 1 prague, 2 osaka
}

func c36Pad32(v uint64) []byte { return common.LeftPadBytes(new(big.Int).SetUint64(v).Bytes(), 32) }

// c36PrecCalls lists, for every cacheable precompile family, an input that is
// accepted and an input of the right size that the precompile rejects.
func c36PrecCalls() []c36PrecCall {
	cat := func(parts ...[]byte) []byte {
		var out []byte
		for _, p := range parts {
			out = append(out, p...)
		}
		return out
	}
	zeros := func(n int) []byte { return make([]byte, n) }
	blake := func(final byte) []byte {
		in := zeros(213)
		in[3] = 1 // one round
		in[212] = final
		return in
	}
	bls := func(v uint64) []byte { return common.LeftPadBytes(new(big.Int).SetUint64(v).Bytes(), 64) }
	return []c36PrecCall{
		{"ecrecover(zeros)", 0x01, zeros(128), false, 0},
		{"bn254add(inf,inf)", 0x06, zeros(128), false, 0},
		{"bn254add(point-not-on-curve)", 0x06, cat(c36Pad32(1), c36Pad32(1), zeros(64)), true, 0},
		{"bn254mul(inf,2)", 0x07, cat(zeros(64), c36Pad32(2)), false, 0},
		{"bn254mul(point-not-on-curve)", 0x07, cat(c36Pad32(1), c36Pad32(1), c36Pad32(2)), true, 0},
		{"bn254pairing(empty)", 0x08, nil, false, 0},
		{"bn254pairing(point-not-on-curve)", 0x08, cat(c36Pad32(1), c36Pad32(1), zeros(128)), true, 0},
		{"blake2f(final=1)", 0x09, blake(1), false, 0},
		{"blake2f(final=2)", 0x09, blake(2), true, 0},
		{"kzg-point-evaluation(zeros)", 0x0a, zeros(192), true, 0},
		{"bls12-g1add(inf,inf)", 0x0b, zeros(256), false, 1},
		{"bls12-g1add(point-not-on-curve)", 0x0b, cat(bls(1), bls(1), zeros(128)), true, 1},
	}
}

// c36PrecCalldata encodes the calls as records [address word][length word][input].
func c36PrecCalldata() []byte {
	var out []byte
	for _, c := range c36PrecCalls() {
		out = append(out, c36Pad32(uint64(c.addr))...)
		out = append(out, c36Pad32(uint64(len(c.input)))...)
		out = append(out, c.input...)
	}
	return out
}

// c36PrecRecorderCode: for every record at calldata offset `off`:
// ok = STATICCALL(200000 gas, address, input); SSTORE(off+1, ok + 1 + 256*(RETURNDATASIZE+1)); SSTORE(off+2, gas spent around the call).
func c36PrecRecorderCode() []byte {
	p := program.New().Push(0) // off
	loop := p.Size()
	p.Op(vm.JUMPDEST)
	p.Op(vm.DUP1, vm.CALLDATASIZE, vm.GT, vm.ISZERO).Op(vm.PUSH2)
	patch := p.Size()
	p.Append([]byte{0, 0}).Op(vm.JUMPI)
	p.Op(vm.DUP1).Push(32).Op(vm.ADD, vm.CALLDATALOAD)                  // [off, len]
	p.Op(vm.DUP1, vm.DUP3).Push(64).Op(vm.ADD).Push(0).Op(vm.CALLDATACOPY) // mem[0:len] = input
	p.Op(vm.GAS)                                                         // [off, len, g0]
	p.Push(0).Push(0).Op(vm.DUP4).Push(0)                               // outSize, outOff, inSize, inOff
	p.Op(vm.DUP7, vm.CALLDATALOAD)                                       // address
	p.Push(200_000).Op(vm.STATICCALL)                                    // [off, len, g0, ok]
	p.Op(vm.SWAP1, vm.GAS, vm.SWAP1, vm.SUB)                             // [off, len, ok, g0-gas]
	p.Op(vm.DUP4).Push(2).Op(vm.ADD, vm.SSTORE)                          // SSTORE(off+2, spent)  [off, len, ok]
	p.Push(1).Op(vm.ADD, vm.RETURNDATASIZE).Push(1).Op(vm.ADD).Push(256).Op(vm.MUL, vm.ADD) // ok+1+256*(rds+1)
	p.Op(vm.DUP3).Push(1).Op(vm.ADD, vm.SSTORE)                          // SSTORE(off+1, ...)    [off, len]
	p.Op(vm.ADD).Push(64).Op(vm.ADD)                                     // off += len + 64
	p.Op(vm.PUSH2).Append([]byte{byte(loop >> 8), byte(loop)}).Op(vm.JUMP)
	exit := p.Size()
	p.Op(vm.JUMPDEST, vm.STOP)
	b := p.Bytes()
	b[patch], b[patch+1] = byte(exit>>8), byte(exit)
	return b
}

type c36Entry struct {
	name       string
	tx         *types.Transaction
	includable string // "always", "never", "prague", "osaka", "after:<name>"
}

type c36World struct {
	fork    c36Fork
	gspec   *core.Genesis
	keys    []*ecdsa.PrivateKey
	addrs   []common.Address
	entries []c36Entry
	signer  types.Signer

	node *node.Node
	eth  *eth.Ethereum
	api  *ConsensusAPI
}

func c36Key(i int) *ecdsa.PrivateKey {
	k, err := crypto.ToECDSA(crypto.Keccak256([]byte(fmt.Sprintf("c36-sender-%d", i))))
	if err != nil {
		panic(err)
	}
	return k
}

// c36Sidecar builds a sidecar with valid KZG material from the blobs the
// package's own tests precompute (testBlobs etc.).
func c36Sidecar(version byte, from, n int) *types.BlobTxSidecar {
	var (
		blobs   []kzg4844.Blob
		commits []kzg4844.Commitment
		proofs  []kzg4844.Proof
	)
	for i := from; i < from+n; i++ {
		blobs = append(blobs, *testBlobs[i])
		commits = append(commits, testBlobCommits[i])
		if version == types.BlobSidecarVersion0 {
			proofs = append(proofs, testBlobProofs[i])
		} else {
			proofs = append(proofs, testBlobCellProofs[i]...)
		}
	}
	return types.NewBlobTxSidecar(version, blobs, commits, proofs)
}

func c36NewWorld(t testing.TB, f c36Fork) *c36World {
	w := &c36World{fork: f, signer: types.NewPragueSigner(f.cfg.ChainID)}
	alloc := types.GenesisAlloc{}
	for addr, acc := range core.SystemContractAllocs() {
		alloc[addr] = acc
	}
	rich := new(big.Int).Mul(big.NewInt(1000), big.NewInt(params.Ether))
	for i := 0; i < 14; i++ {
		k := c36Key(i)
		w.keys = append(w.keys, k)
		w.addrs = append(w.addrs, crypto.PubkeyToAddress(k.PublicKey))
		alloc[w.addrs[i]] = types.Account{Balance: rich}
	}
	authKey := c36Key(100)
	authority := crypto.PubkeyToAddress(authKey.PublicKey)
	// V: an externally owned account delegated (EIP-7702) in genesis to a forwarder
	// that sends its whole balance away when called: from Prague on, a call of V by
	// anybody makes V's own, pool-accepted transaction unaffordable in the same block.
	vKey := c36Key(101)
	vAddr := crypto.PubkeyToAddress(vKey.PublicKey)
	forwarder := program.New().Push(0).Push(0).Push(0).Push(0).Op(vm.SELFBALANCE).Push(c36Sink).Op(vm.GAS, vm.CALL, vm.POP, vm.STOP).Bytes()
	alloc[c36Forwarder] = types.Account{Code: forwarder, Nonce: 1, Balance: common.Big0}
	alloc[c36Sink] = types.Account{Balance: big.NewInt(1)}
	alloc[vAddr] = types.Account{Code: types.AddressToDelegation(c36Forwarder), Balance: big.NewInt(10_000_000_000_000_000)}
	revert := program.New().Sstore(0, 1).Push(0).Push(0).Op(vm.REVERT).Bytes()
	loop := program.New().Op(vm.JUMPDEST).Sstore(0, 1).Jump(0).Bytes()
	adder := program.New().Push(0).Op(vm.SLOAD).Push(1).Op(vm.ADD).Push(0).Op(vm.SSTORE).Push(0).Push(0).Op(vm.LOG0, vm.STOP).Bytes()
	alloc[c36Reverter] = types.Account{Code: revert, Nonce: 1, Balance: common.Big0}
	alloc[c36Looper] = types.Account{Code: loop, Nonce: 1, Balance: common.Big0}
	alloc[c36Adder] = types.Account{Code: adder, Nonce: 1, Balance: common.Big0}
	envrec := program.New()
	for k, op := range c36EnvOps {
		envrec.Op(op).Push(k).Op(vm.SSTORE)
	}
	envrec.Push(1).Op(vm.NUMBER, vm.SUB, vm.BLOCKHASH).Push(len(c36EnvOps)).Op(vm.SSTORE, vm.STOP)
	alloc[c36EnvRec] = types.Account{Code: envrec.Bytes(), Nonce: 1, Balance: common.Big0}
	alloc[c36PrecRec] = types.Account{Code: c36PrecRecorderCode(), Nonce: 1, Balance: common.Big0}
	alloc[c36SlotRec] = types.Account{Code: program.New().Op(vm.SLOTNUM).Push(0).Op(vm.SSTORE, vm.STOP).Bytes(), Nonce: 1, Balance: common.Big0}
	w.gspec = &core.Genesis{Config: f.cfg, Alloc: alloc, GasLimit: 30_000_000, BaseFee: big.NewInt(params.InitialBaseFee), Timestamp: 1_700_000_000, Difficulty: common.Big0}

	chainID := f.cfg.ChainID
	gwei := func(n int64) *big.Int { return new(big.Int).Mul(big.NewInt(n), big.NewInt(params.GWei)) }
	dyn := func(sender int, nonce uint64, to *common.Address, value int64, gas uint64, tip int64, data []byte) *types.Transaction {
		return types.MustSignNewTx(w.keys[sender], w.signer, &types.DynamicFeeTx{ChainID: chainID, Nonce: nonce, To: to, Value: big.NewInt(value), Gas: gas, GasFeeCap: gwei(10), GasTipCap: gwei(tip), Data: data})
	}
	blob := func(sender, from, n int, tip int64) *types.Transaction {
		version := byte(types.BlobSidecarVersion0)
		if f.osaka {
			version = types.BlobSidecarVersion1
		}
		sc := c36Sidecar(version, from, n)
		return types.MustSignNewTx(w.keys[sender], w.signer, &types.BlobTx{
			ChainID: uint256.MustFromBig(chainID), Nonce: 0, GasTipCap: uint256.MustFromBig(gwei(tip)), GasFeeCap: uint256.MustFromBig(gwei(10)), Gas: 1_000_000,
			To: c36Adder, Value: new(uint256.Int), BlobFeeCap: uint256.NewInt(1_000_000), BlobHashes: sc.BlobHashes(), Sidecar: sc,
		})
	}
	auth, err := types.SignSetCode(authKey, types.SetCodeAuthorization{ChainID: *uint256.MustFromBig(chainID), Address: c36Adder, Nonce: 0})
	if err != nil {
		panic(err)
	}
	setcode := types.MustSignNewTx(w.keys[8], w.signer, &types.SetCodeTx{
		ChainID: uint256.MustFromBig(chainID), Nonce: 0, To: authority, Value: new(uint256.Int), Gas: 1_000_000,
		GasFeeCap: uint256.MustFromBig(gwei(10)), GasTipCap: uint256.MustFromBig(gwei(3)), AuthList: []types.SetCodeAuthorization{auth},
	})
	wreq := make([]byte, 56)
	for i := range wreq[:48] {
		wreq[i] = byte(0xb0 + i%5)
	}
	wreq[55] = 9
	initcode := program.New().Sstore(1, 0x36).ReturnViaCodeCopy(adder).Bytes()
	w.entries = []c36Entry{
		{"XFER", dyn(0, 0, &c36Fresh, 1000, 1_000_000, 5, nil), "always"},
		{"XFER2", dyn(0, 1, &c36Fresh, 7, 1_000_000, 9, nil), "after:XFER"},
		{"GAP", dyn(1, 1, &c36Fresh, 1, 1_000_000, 8, nil), "never"},
		{"REVERT", dyn(2, 0, &c36Reverter, 0, 1_000_000, 4, nil), "always"},
		{"OOG", dyn(3, 0, &c36Looper, 0, 1_000_000, 6, nil), "always"},
		{"BLOB1", blob(6, 0, 1, 2), "osaka"},
		{"BLOB2", blob(7, 1, 2, 3), "osaka"},
		{"SETCODE", setcode, "prague"},
		{"CREATE", dyn(9, 0, nil, 0, 3_000_000, 2, initcode), "always"},
		{"WREQ", dyn(11, 0, &params.WithdrawalQueueAddress, 1, 1_000_000, 10, wreq), "always"},
		// a transaction that is valid at the head state (the pool accepts it) but whose sender is drained by an
		// earlier, better paying transaction of the same block, and a cheap transaction of a third sender behind it
		{"DRAIN_V", dyn(12, 0, &vAddr, 0, 1_000_000, 7, nil), "always"},
		{"V_TX", types.MustSignNewTx(vKey, w.signer, &types.DynamicFeeTx{ChainID: chainID, Nonce: 0, To: &c36Fresh, Value: big.NewInt(3), Gas: 100_000, GasFeeCap: gwei(10), GasTipCap: big.NewInt(5_500_000_000)}), "unless-prague:DRAIN_V"},
		{"TAIL", dyn(13, 0, &w.addrs[1], 2, 1_000_000, 1, nil), "always"},
		// environment recorders (one storage slot per block-context field)
		{"ENVREC", types.MustSignNewTx(w.keys[4], w.signer, &types.DynamicFeeTx{ChainID: chainID, Nonce: 0, To: &c36EnvRec, Value: new(big.Int), Gas: 3_000_000, GasFeeCap: gwei(10), GasTipCap: big.NewInt(4_500_000_000)}), "always"},
		{"PRECREC", types.MustSignNewTx(w.keys[10], w.signer, &types.DynamicFeeTx{ChainID: chainID, Nonce: 0, To: &c36PrecRec, Value: new(big.Int), Gas: 10_000_000, GasFeeCap: gwei(10), GasTipCap: big.NewInt(2_500_000_000), Data: c36PrecCalldata()}), "always"},
		{"SLOTREC", types.MustSignNewTx(w.keys[5], w.signer, &types.DynamicFeeTx{ChainID: chainID, Nonce: 0, To: &c36SlotRec, Value: new(big.Int), Gas: 1_000_000, GasFeeCap: gwei(10), GasTipCap: big.NewInt(3_500_000_000)}), "always"},
	}
	w.node, w.eth = startEthService(t, w.gspec, nil, func(c *ethconfig.Config) {
		c.Miner = miner.Config{GasCeil: 30_000_000, GasPrice: big.NewInt(1), Recommit: time.Hour}
	})
	w.api = newConsensusAPIWithoutHeartbeat(w.eth)
	return w
}

type c36Attrs struct {
	name        string
	withdrawals []*types.Withdrawal
	beaconRoot  common.Hash
	recipient   common.Address
	slot        uint64  // slot number (Amsterdam), never zero
	targetGas   *uint64 // target gas limit (Amsterdam)
}

func c36Subsets(n, maxSize int) [][]int {
	out := [][]int{{}}
	var rec func(start int, cur []int)
	rec = func(start int, cur []int) {
		for i := start; i < n; i++ {
			next := append(append([]int{}, cur...), i)
			out = append(out, next)
			if len(next) < maxSize {
				rec(i+1, next)
			}
		}
	}
	rec(0, nil)
	sort.SliceStable(out, func(i, j int) bool { return len(out[i]) < len(out[j]) })
	return out
}

func TestVerif_C36_engine(t *testing.T) {
	mc.Run(t, "C36", func(r *mc.R) {
		maxSize := mc.Pick(r, 3, 4)
		r.Rule("rule sets {cancun, prague, osaka, amsterdam} x 2 payload-attribute combinations x every subset of <= max_pool_size transactions of a 16-entry alphabet added to the real pools of a full eth service (quick: pools of 2 and 3 transactions take one attribute combination each, round robin, and of the pools of 3 only those containing two mutually dependent transactions); " +
			"ForkchoiceUpdated(head=genesis, attributes) -> full payload -> NewPayload of the fork's version; distinct = distinct payload block hashes")
		r.Bound("max_pool_size", maxSize)
		r.Assume("one eth.Ethereum service per rule set, head stays at genesis, prevRandao unique per case; the transaction pools are the real legacypool and blobpool (blob sidecars with valid KZG commitments/proofs)")

		var replay struct {
			Fork  string   `json:"fork"`
			Attrs string   `json:"attrs"`
			Pool  []string `json:"pool"`
		}
		if r.Replaying() {
			_ = json.Unmarshal(r.ReplayDescriptor(), &replay)
		}
		forks := c36Forks()
		var wg sync.WaitGroup
		for _, f := range forks {
			if r.Replaying() && replay.Fork != f.name {
				continue
			}
			wg.Add(1)
			go func() {
				defer wg.Done()
				err := mc.Safely(func() error {
					w := c36NewWorld(t, f)
					defer w.node.Close()
					attrs := []c36Attrs{
						{"plain", []*types.Withdrawal{}, common.Hash{}, c36FeeRcpt, 7, nil},
						{"withdrawals+root+recipient-is-sender", []*types.Withdrawal{{Index: 0, Validator: 3, Address: c36WdAddr, Amount: 7}, {Index: 1, Validator: 4, Address: w.addrs[0], Amount: 0}}, common.Hash{0xbe, 0xac}, w.addrs[2], 1_000_003, c36U64(36_000_000)},
					}
					subsets := c36Subsets(len(w.entries), maxSize)
					r.Bound("pools."+f.name, len(subsets))
					n := 0
					for ai, a := range attrs {
						for si, s := range subsets {
							if r.Expired() {
								return nil
							}
							// quick tier: pools of the maximal size take one attribute combination each (round robin)
							if r.Quick() && len(s) >= 2 && si%len(attrs) != ai {
								continue
							}
							// quick tier: of the pools of 3 only those in which two transactions depend on each other
							// (same sender, or the drain group); the builder step enumerates all pools of 3
							if r.Quick() && len(s) == 3 && !w.dependent(s) {
								continue
							}
							names := []string{}
							for _, i := range s {
								names = append(names, w.entries[i].name)
							}
							if r.Replaying() && (replay.Attrs != a.name || fmt.Sprint(replay.Pool) != fmt.Sprint(names)) {
								continue
							}
							desc := map[string]any{"fork": f.name, "attrs": a.name, "pool": names}
							r.Case(desc, func() error { return w.check(r, a, s, names) })
							if n++; n%37 == 0 {
								r.Sample(desc)
							}
						}
					}
					return nil
				})
				if err != nil {
					r.HarnessError(fmt.Sprintf("c36 engine %s: %v", f.name, err))
				}
			}()
		}
		wg.Wait()
	})
}

func (w *c36World) check(r *mc.R, a c36Attrs, subset []int, names []string) error {
	var (
		ctx     = context.Background()
		pool    = w.eth.TxPool()
		genesis = w.eth.BlockChain().Genesis()
		byHash  = map[common.Hash]string{}
		inPool  = map[string]bool{}
		txs     []*types.Transaction
	)
	pool.Clear()
	for _, s := range subset {
		txs = append(txs, w.entries[s].tx)
		byHash[w.entries[s].tx.Hash()] = w.entries[s].name
		inPool[w.entries[s].name] = true
	}
	accepted := map[string]bool{}
	for i, err := range pool.Add(txs, true) {
		if err == nil {
			accepted[names[i]] = true
		} else {
			msg := err.Error()
			if len(msg) > 60 {
				msg = msg[:60]
			}
			r.Outcome("pool-rejects:" + w.fork.name + ":" + names[i] + ":" + msg)
		}
	}
	if err := pool.Sync(); err != nil {
		return fmt.Errorf("pool sync: %v", err)
	}
	if head := w.eth.BlockChain().CurrentBlock(); head.Hash() != genesis.Hash() {
		return fmt.Errorf("internal: head moved to %x", head.Hash())
	}
	// a prevRandao unique to the case
	random := crypto.Keccak256Hash([]byte(w.fork.name + "|" + a.name + "|" + fmt.Sprint(names)))
	root := a.beaconRoot
	attrs := &engine.PayloadAttributes{
		Timestamp: genesis.Time() + 12, Random: random, SuggestedFeeRecipient: a.recipient, Withdrawals: a.withdrawals, BeaconRoot: &root,
	}
	fc := engine.ForkchoiceStateV1{HeadBlockHash: genesis.Hash()}
	var (
		resp engine.ForkChoiceResponse
		err  error
	)
	if w.fork.amsterdam {
		attrs.SlotNumber = c36U64(a.slot)
		attrs.TargetGasLimit = a.targetGas
		resp, err = w.api.ForkchoiceUpdatedV4(ctx, fc, attrs, nil)
	} else {
		resp, err = w.api.ForkchoiceUpdatedV3(ctx, fc, attrs)
	}
	if err != nil {
		return fmt.Errorf("forkchoiceUpdated: %v", err)
	}
	if resp.PayloadStatus.Status != engine.VALID || resp.PayloadID == nil {
		return fmt.Errorf("forkchoiceUpdated: status %s, payload id %v", resp.PayloadStatus.Status, resp.PayloadID)
	}
	envCh := make(chan *engine.ExecutionPayloadEnvelope, 1)
	go func() {
		env, _ := w.api.getPayload(*resp.PayloadID, true, nil, nil)
		envCh <- env
	}()
	var env *engine.ExecutionPayloadEnvelope
	select {
	case env = <-envCh:
	case <-time.After(120 * time.Second):
		r.HarnessError("c36: full payload not delivered within 120s")
		return nil
	}
	if env == nil {
		return fmt.Errorf("getPayload returned nothing")
	}
	// the public, fork-specific getter must hand out the same (full) payload now
	var pub *engine.ExecutionPayloadEnvelope
	switch {
	case w.fork.amsterdam:
		pub, err = w.api.GetPayloadV6(*resp.PayloadID)
	case w.fork.osaka:
		pub, err = w.api.GetPayloadV5(*resp.PayloadID)
	case w.fork.prague:
		pub, err = w.api.GetPayloadV4(*resp.PayloadID)
	default:
		pub, err = w.api.GetPayloadV3(*resp.PayloadID)
	}
	if err != nil {
		return fmt.Errorf("GetPayload (public): %v", err)
	}
	if pub.ExecutionPayload.BlockHash != env.ExecutionPayload.BlockHash {
		return fmt.Errorf("public GetPayload returns block %x after the full payload %x was resolved", pub.ExecutionPayload.BlockHash, env.ExecutionPayload.BlockHash)
	}
	data := env.ExecutionPayload
	if data.Random != random || data.FeeRecipient != a.recipient || data.Timestamp != attrs.Timestamp || data.ParentHash != genesis.Hash() {
		return fmt.Errorf("payload does not carry the requested attributes")
	}
	// newPayload as the consensus client sends it
	vhashes := []common.Hash{}
	hasher := sha256.New()
	if env.BlobsBundle != nil {
		for _, c := range env.BlobsBundle.Commitments {
			var commit kzg4844.Commitment
			copy(commit[:], c)
			vhashes = append(vhashes, kzg4844.CalcBlobHashV1(hasher, &commit))
		}
	}
	reqs := make([]hexutil.Bytes, 0, len(env.Requests))
	for _, q := range env.Requests {
		reqs = append(reqs, q)
	}
	var status engine.PayloadStatusV1
	switch {
	case w.fork.amsterdam:
		status, err = w.api.NewPayloadV5(ctx, *data, vhashes, &root, reqs)
	case w.fork.prague:
		status, err = w.api.NewPayloadV4(ctx, *data, vhashes, &root, reqs)
	default:
		status, err = w.api.NewPayloadV3(ctx, *data, vhashes, &root)
	}
	if err != nil {
		return fmt.Errorf("NewPayload of the locally built block: error %v", err)
	}
	if status.Status != engine.VALID {
		msg := ""
		if status.ValidationError != nil {
			msg = *status.ValidationError
		}
		return fmt.Errorf("NewPayload of the locally built block: status %s (%s)", status.Status, msg)
	}
	if status.LatestValidHash == nil || *status.LatestValidHash != data.BlockHash {
		return fmt.Errorf("NewPayload: latestValidHash %v, want %x", status.LatestValidHash, data.BlockHash)
	}
	stored := w.eth.BlockChain().GetBlockByHash(data.BlockHash)
	if stored == nil {
		return fmt.Errorf("block %x is not in the database after NewPayload VALID", data.BlockHash)
	}
	if stored.Root() != data.StateRoot || stored.GasUsed() != data.GasUsed || stored.ReceiptHash() != data.ReceiptsRoot {
		return fmt.Errorf("stored block differs from the payload")
	}
	if !w.eth.BlockChain().HasState(data.StateRoot) {
		return fmt.Errorf("state %x of the accepted payload is not available", data.StateRoot)
	}
	r.DistinctHash(mc.Hash64(string(data.BlockHash.Bytes())))
	if w.fork.amsterdam && (data.SlotNumber == nil || *data.SlotNumber != a.slot) {
		return fmt.Errorf("payload slot number %v, requested %d", data.SlotNumber, a.slot)
	}
	if err := w.checkRecorders(stored); err != nil {
		return err
	}

	// inclusion
	seen := map[string]bool{}
	for _, enc := range data.Transactions {
		var tx types.Transaction
		if err := tx.UnmarshalBinary(enc); err != nil {
			return fmt.Errorf("payload transaction does not decode: %v", err)
		}
		name, ok := byHash[tx.Hash()]
		if !ok {
			return fmt.Errorf("payload contains transaction %x that was never added to the pool", tx.Hash())
		}
		if seen[name] {
			return fmt.Errorf("payload contains %s twice", name)
		}
		if !accepted[name] {
			return fmt.Errorf("payload contains %s, which the pool rejected", name)
		}
		seen[name] = true
	}
	expected := 0
	for _, s := range subset {
		e := w.entries[s]
		ok := false
		switch {
		case e.includable == "always":
			ok = true
		case e.includable == "prague":
			ok = w.fork.prague
		case e.includable == "osaka": // this tree's blob pool only takes version-1 sidecars, which the builder packs from Osaka on
			ok = w.fork.osaka
		case len(e.includable) > 6 && e.includable[:6] == "after:":
			ok = inPool[e.includable[6:]]
		case len(e.includable) > 14 && e.includable[:14] == "unless-prague:":
			ok = !(w.fork.prague && inPool[e.includable[14:]])
		}
		if ok {
			expected++
		} else if seen[e.name] && e.includable == "never" {
			return fmt.Errorf("payload includes %s, which can never be executed on genesis", e.name)
		}
	}
	if len(seen) == expected {
		r.Outcome(fmt.Sprintf("VALID:%d-of-%d-pool-txs-included(as-modelled)", len(seen), len(subset)))
	} else {
		r.Outcome(fmt.Sprintf("VALID:included-%d-model-%d", len(seen), expected))
	}
	if len(env.Requests) > 0 {
		r.Outcome("VALID:with-requests")
	}
	if len(vhashes) > 0 {
		r.Outcome(fmt.Sprintf("VALID:with-%d-blobs", len(vhashes)))
	}
	return nil
}

// checkRecorders compares what the environment recorder transactions stored in
// the accepted block's state with the block's header.
func (w *c36World) checkRecorders(block *types.Block) error {
	h := block.Header()
	var envPos, slotPos = -1, -1
	for i, tx := range block.Transactions() {
		if tx.To() != nil && *tx.To() == c36EnvRec {
			envPos = i
		}
		if tx.To() != nil && *tx.To() == c36SlotRec {
			slotPos = i
		}
	}
	precPos := -1
	for i, tx := range block.Transactions() {
		if tx.To() != nil && *tx.To() == c36PrecRec {
			precPos = i
		}
	}
	if envPos < 0 && slotPos < 0 && precPos < 0 {
		return nil
	}
	bc := w.eth.BlockChain()
	st, err := bc.StateAt(h)
	if err != nil {
		return fmt.Errorf("state of the accepted block unavailable: %v", err)
	}
	receipts := bc.GetReceiptsByHash(block.Hash())
	word := func(addr common.Address, k int) common.Hash { return st.GetState(addr, common.BigToHash(big.NewInt(int64(k)))) }
	if envPos >= 0 {
		if receipts[envPos].Status != types.ReceiptStatusSuccessful {
			return fmt.Errorf("environment recorder failed")
		}
		want := []common.Hash{
			common.BigToHash(h.Number), common.BigToHash(new(big.Int).SetUint64(h.Time)), h.MixDigest, common.BytesToHash(h.Coinbase[:]),
			common.BigToHash(new(big.Int).SetUint64(h.GasLimit)), common.BigToHash(h.BaseFee), common.BigToHash(eip4844.CalcBlobFee(w.fork.cfg, h)),
			common.BigToHash(w.fork.cfg.ChainID), h.ParentHash,
		}
		names := []string{"NUMBER", "TIMESTAMP", "PREVRANDAO", "COINBASE", "GASLIMIT", "BASEFEE", "BLOBBASEFEE", "CHAINID", "BLOCKHASH(N-1)"}
		for k := range want {
			if got := word(c36EnvRec, k); got != want[k] {
				return fmt.Errorf("the recorder transaction observed %s = %x, the header implies %x", names[k], got, want[k])
			}
		}
	}
	if precPos >= 0 {
		if receipts[precPos].Status != types.ReceiptStatusSuccessful {
			return fmt.Errorf("precompile recorder failed (status %d, gas %d)", receipts[precPos].Status, receipts[precPos].GasUsed)
		}
		level := 0
		if w.fork.prague {
			level = 1
		}
		if w.fork.osaka {
			level = 2
		}
		off := 0
		for _, c := range c36PrecCalls() {
			v := new(big.Int).SetBytes(word(c36PrecRec, off+1).Bytes())
			flag := int(v.Uint64()&0xff) - 1
			want := 1
			if c.fails && level >= c.level {
				want = 0
			}
			if flag != want {
				return fmt.Errorf("precompile call %s: success flag %d in the accepted block's state, the precompile's specification gives %d", c.name, flag, want)
			}
			off += 64 + len(c.input)
		}
	}
	if slotPos >= 0 {
		ok := receipts[slotPos].Status == types.ReceiptStatusSuccessful
		if ok != w.fork.amsterdam {
			return fmt.Errorf("SLOTNUM recorder status %d on %s", receipts[slotPos].Status, w.fork.name)
		}
		if w.fork.amsterdam {
			if got, want := word(c36SlotRec, 0), common.BigToHash(new(big.Int).SetUint64(*h.SlotNumber)); got != want {
				return fmt.Errorf("the recorder transaction observed SLOTNUM = %x, the header has %x", got, want)
			}
		}
	}
	return nil
}

// dependent reports whether two entries of the pool belong to one dependency group.
func (w *c36World) dependent(subset []int) bool {
	group := map[string]int{"XFER": 1, "XFER2": 1, "DRAIN_V": 2, "V_TX": 2, "TAIL": 2}
	seen := map[int]int{}
	for _, i := range subset {
		if g := group[w.entries[i].name]; g != 0 {
			seen[g]++
		}
	}
	return seen[1] >= 2 || seen[2] >= 2
}
