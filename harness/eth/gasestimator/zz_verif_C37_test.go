//go:build verif

package gasestimator

import (
	"bytes"
	"context"
	"errors"
	"fmt"
	"math/big"
	"os"
	"sort"
	"testing"

	"github.com/ethereum/go-ethereum/common"
	"github.com/ethereum/go-ethereum/consensus"
	"github.com/ethereum/go-ethereum/consensus/beacon"
	"github.com/ethereum/go-ethereum/consensus/ethash"
	"github.com/ethereum/go-ethereum/core"
	"github.com/ethereum/go-ethereum/core/state"
	"github.com/ethereum/go-ethereum/core/tracing"
	"github.com/ethereum/go-ethereum/core/types"
	"github.com/ethereum/go-ethereum/core/vm"
	"github.com/ethereum/go-ethereum/internal/verif/mc"
	"github.com/ethereum/go-ethereum/params"
	"github.com/holiman/uint256"
)

// ---------------------------------------------------------------------------
// world

var (
	c37A  = common.HexToAddress("0xa100000000000000000000000000000000000001") // caller (EOA)
	c37B  = common.HexToAddress("0xb000000000000000000000000000000000000002") // contract running the program
	c37C1 = common.HexToAddress("0xc100000000000000000000000000000000000003") // callee: SSTORE(0,1)
	c37C2 = common.HexToAddress("0xc200000000000000000000000000000000000004") // callee: REVERT
	c37C3 = common.HexToAddress("0xc300000000000000000000000000000000000005") // callee: three fresh SSTOREs
	c37E  = common.HexToAddress("0xe000000000000000000000000000000000000006") // existing EOA
	c37F  = common.HexToAddress("0xf000000000000000000000000000000000000007") // absent account
	c37CB = common.HexToAddress("0xcb00000000000000000000000000000000000008") // coinbase
)

type c37Chain struct {
	cfg *params.ChainConfig
	eng consensus.Engine
}

func (c *c37Chain) Config() *params.ChainConfig                    { return c.cfg }
func (c *c37Chain) CurrentHeader() *types.Header                   { return nil }
func (c *c37Chain) GetHeader(common.Hash, uint64) *types.Header    { return nil }
func (c *c37Chain) GetHeaderByNumber(uint64) *types.Header         { return nil }
func (c *c37Chain) GetHeaderByHash(common.Hash) *types.Header      { return nil }
func (c *c37Chain) GetTd(hash common.Hash, number uint64) *big.Int { return nil }
func (c *c37Chain) Engine() consensus.Engine                       { return c.eng }

type c37Fork struct {
	name             string
	cfg              *params.ChainConfig
	cancun, osaka    bool
	amsterdam, shang bool
	preLondon        bool // proof-of-work rule set without base fee: legacy gas price only
}

func c37U64(v uint64) *uint64 { return &v }

func c37Forks() []c37Fork {
	mk := func(name string, level int) c37Fork {
		cfg := *params.MergedTestChainConfig
		cfg.ShanghaiTime, cfg.CancunTime, cfg.PragueTime, cfg.OsakaTime, cfg.AmsterdamTime = nil, nil, nil, nil, nil
		cfg.BPO1Time, cfg.BPO2Time, cfg.BPO3Time, cfg.BPO4Time, cfg.BPO5Time = nil, nil, nil, nil, nil
		if level >= 1 {
			cfg.ShanghaiTime = c37U64(0)
		}
		if level >= 2 {
			cfg.CancunTime = c37U64(0)
		}
		if level >= 3 {
			cfg.PragueTime = c37U64(0)
		}
		if level >= 4 {
			cfg.OsakaTime = c37U64(0)
		}
		if level >= 5 {
			cfg.AmsterdamTime = c37U64(0)
		}
		return c37Fork{name: name, cfg: &cfg, shang: level >= 1, cancun: level >= 2, osaka: level >= 4, amsterdam: level >= 5}
	}
	// proof-of-work rule sets before London: AllEthashProtocolChanges with the later forks switched off again
	pow := func(name string, level int) c37Fork {
		cfg := *params.AllEthashProtocolChanges
		cfg.LondonBlock, cfg.ArrowGlacierBlock, cfg.GrayGlacierBlock = nil, nil, nil
		if level < 3 { // before Constantinople..Berlin
			cfg.ConstantinopleBlock, cfg.PetersburgBlock, cfg.IstanbulBlock, cfg.MuirGlacierBlock, cfg.BerlinBlock = nil, nil, nil, nil, nil
		}
		if level < 2 { // before Tangerine Whistle..Byzantium
			cfg.EIP150Block, cfg.EIP155Block, cfg.EIP158Block, cfg.ByzantiumBlock = nil, nil, nil, nil
		}
		if level < 1 {
			cfg.HomesteadBlock = nil
		}
		return c37Fork{name: name, cfg: &cfg, preLondon: true}
	}
	return []c37Fork{mk("paris", 0), mk("shanghai", 1), mk("cancun", 2), mk("prague", 3), mk("osaka", 4), mk("amsterdam", 5),
		pow("frontier", 0), pow("homestead", 1), pow("byzantium", 2), pow("berlin", 3)}
}

func c37Header(f c37Fork, gasLimit uint64) *types.Header {
	h := &types.Header{
		Number:     big.NewInt(10),
		Time:       1000,
		GasLimit:   gasLimit,
		BaseFee:    big.NewInt(7),
		Difficulty: new(big.Int),
		Coinbase:   c37CB,
		MixDigest:  common.Hash{0x77},
	}
	if f.cancun {
		h.ExcessBlobGas = c37U64(0) // blob base fee 1
		h.BlobGasUsed = c37U64(0)
	}
	if f.preLondon {
		h.BaseFee, h.Difficulty, h.MixDigest = nil, big.NewInt(131072), common.Hash{}
	}
	return h
}

// ---------------------------------------------------------------------------
// tiny assembler and the unit alphabet

type c37Asm struct {
	b     []byte
	fails []int // positions of PUSH2 placeholders that must be patched with the fail label
}

func (a *c37Asm) op(ops ...vm.OpCode) {
	for _, o := range ops {
		a.b = append(a.b, byte(o))
	}
}

// push emits the shortest PUSH1..PUSH8 for v (PUSH0 is not used: it does not exist before Shanghai).
func (a *c37Asm) push(v uint64) {
	n := 1
	for x := v >> 8; x > 0; x >>= 8 {
		n++
	}
	a.b = append(a.b, byte(vm.PUSH1)+byte(n-1))
	for i := n - 1; i >= 0; i-- {
		a.b = append(a.b, byte(v>>(8*uint(i))))
	}
}

func (a *c37Asm) pushBytes(p []byte) {
	a.b = append(a.b, byte(vm.PUSH1)+byte(len(p)-1))
	a.b = append(a.b, p...)
}

// jumpiFail: jump to the common failure block (empty REVERT) when the top of stack is non-zero.
func (a *c37Asm) jumpiFail() {
	a.b = append(a.b, byte(vm.PUSH2), 0, 0)
	a.fails = append(a.fails, len(a.b)-2)
	a.op(vm.JUMPI)
}

func (a *c37Asm) call(gas uint64, to common.Address, value uint64) {
	a.push(0) // retLength
	a.push(0) // retOffset
	a.push(0) // argsLength
	a.push(0) // argsOffset
	a.push(value)
	a.pushBytes(to.Bytes())
	a.push(gas)
	a.op(vm.CALL)
}

func (a *c37Asm) finish() []byte {
	a.op(vm.STOP)
	fail := len(a.b)
	a.op(vm.JUMPDEST)
	a.push(0)
	a.push(0)
	a.op(vm.REVERT)
	for _, p := range a.fails {
		a.b[p] = byte(fail >> 8)
		a.b[p+1] = byte(fail)
	}
	return a.b
}

const (
	c37Mono    = 0 // same trace at every gas limit at which it succeeds; failures of inner calls are propagated
	c37Fails   = 1 // fails at every gas limit
	c37NonMono = 2 // behaviour depends on the gas left (GAS opcode ceiling, ignored inner-call failures)
)

type c37Unit struct {
	name  string
	class int
	emit  func(a *c37Asm)
}

const c37AllGas = 0xffffffffff

var c37RevertData = []byte{0xde, 0xad, 0xbe, 0xef}

func c37Units() []c37Unit {
	return []c37Unit{
		{"sstore_new", c37Mono, func(a *c37Asm) { a.push(1); a.push(0); a.op(vm.SSTORE) }},
		{"sstore_clear", c37Mono, func(a *c37Asm) { a.push(0); a.push(1); a.op(vm.SSTORE) }}, // slot 1 holds 1: refund
		{"sload", c37Mono, func(a *c37Asm) { a.push(0); a.op(vm.SLOAD, vm.POP) }},
		{"mstore_8k", c37Mono, func(a *c37Asm) { a.push(1); a.push(0x2000); a.op(vm.MSTORE) }},
		{"log1", c37Mono, func(a *c37Asm) { a.push(0xabcd); a.push(32); a.push(0); a.op(vm.LOG1) }},
		{"keccak64", c37Mono, func(a *c37Asm) { a.push(64); a.push(0); a.op(vm.KECCAK256, vm.POP) }},
		{"call_req_store", c37Mono, func(a *c37Asm) { a.call(c37AllGas, c37C1, 0); a.op(vm.ISZERO); a.jumpiFail() }},
		{"call_req_heavy", c37Mono, func(a *c37Asm) { a.call(c37AllGas, c37C3, 0); a.op(vm.ISZERO); a.jumpiFail() }},
		{"call_req_value_eoa", c37Mono, func(a *c37Asm) { a.call(0, c37E, 1); a.op(vm.ISZERO); a.jumpiFail() }},
		{"call_req_value_new", c37Mono, func(a *c37Asm) { a.call(0, c37F, 1); a.op(vm.ISZERO); a.jumpiFail() }},
		{"create_req", c37Mono, func(a *c37Asm) {
			a.pushBytes([]byte{0x60, 0x00, 0x60, 0x00, 0xf3}) // init code: RETURN(0,0)
			a.push(0)
			a.op(vm.MSTORE)
			a.push(5)
			a.push(27)
			a.push(0)
			a.op(vm.CREATE, vm.ISZERO)
			a.jumpiFail()
		}},
		// succeeds iff at least 60000 gas is left here: gas-dependent but with a single threshold
		{"gas_floor", c37Mono, func(a *c37Asm) { a.op(vm.GAS); a.push(60000); a.op(vm.GT); a.jumpiFail() }},
		{"revert_data", c37Fails, func(a *c37Asm) {
			a.pushBytes(c37RevertData)
			a.push(0)
			a.op(vm.MSTORE)
			a.push(4)
			a.push(28)
			a.op(vm.REVERT)
		}},
		{"invalid", c37Fails, func(a *c37Asm) { a.op(vm.INVALID) }},
		{"oog_always", c37Fails, func(a *c37Asm) { a.push(1); a.push(0x3fffffff); a.op(vm.MSTORE) }},
		{"call_req_revert", c37Fails, func(a *c37Asm) { a.call(c37AllGas, c37C2, 0); a.op(vm.ISZERO); a.jumpiFail() }},
		{"call_ign_heavy", c37NonMono, func(a *c37Asm) { a.call(c37AllGas, c37C3, 0); a.op(vm.POP) }},
		{"call_ign_fixed", c37NonMono, func(a *c37Asm) { a.call(30000, c37C1, 0); a.op(vm.POP) }},
		// fails when more than 100000 gas is left: succeeds only in a band of gas limits
		{"gas_ceiling", c37NonMono, func(a *c37Asm) { a.op(vm.GAS); a.push(100000); a.op(vm.LT); a.jumpiFail() }},
	}
}

type c37Prog struct {
	names []string
	code  []byte
	class int
	plain bool // no code at the target: plain transfer
}

func c37Programs(units []c37Unit, maxLen int) []c37Prog {
	var out []c37Prog
	out = append(out, c37Prog{names: []string{"<plain-transfer>"}, class: c37Mono, plain: true})
	var rec func(seq []int)
	rec = func(seq []int) {
		a := &c37Asm{}
		class := c37Mono
		var names []string
		for _, u := range seq {
			units[u].emit(a)
			names = append(names, units[u].name)
			if units[u].class == c37NonMono {
				class = c37NonMono
			}
		}
		out = append(out, c37Prog{names: names, code: a.finish(), class: class})
		if len(seq) < maxLen {
			for u := range units {
				rec(append(append([]int{}, seq...), u))
			}
		}
	}
	rec(nil)
	// one program that needs more gas than the EIP-7825 per-transaction cap (2^24) but less than the block gas limit
	a := &c37Asm{}
	a.op(vm.GAS)
	a.push(20_000_000)
	a.op(vm.GT)
	a.jumpiFail()
	out = append(out, c37Prog{names: []string{"gas_floor_20M"}, code: a.finish(), class: c37Mono})
	return out
}

func c37Callee(ops func(a *c37Asm)) []byte {
	a := &c37Asm{}
	ops(a)
	a.op(vm.STOP)
	return a.b
}

// c37State builds the committed pre-state (so that SSTORE sees slot 1 of B as an original value).
type c37Base struct {
	db   state.Database
	root common.Hash
}

// c37Open opens the committed pre-state and gives the caller its balance (an uncommitted balance does not
// influence gas).
func (b *c37Base) open(balance *uint256.Int) (*state.StateDB, error) {
	st, err := state.New(b.root, b.db)
	if err != nil {
		return nil, err
	}
	st.SetBalance(c37A, balance, tracing.BalanceChangeUnspecified)
	return st, nil
}

func c37State(f c37Fork, prog c37Prog) (*c37Base, error) {
	db := state.NewDatabaseForTesting()
	st, err := state.New(types.EmptyRootHash, db)
	if err != nil {
		return nil, err
	}
	if !prog.plain {
		st.SetCode(c37B, prog.code, tracing.CodeChangeUnspecified)
		st.SetNonce(c37B, 1, tracing.NonceChangeUnspecified)
		st.SetState(c37B, common.Hash{31: 1}, common.Hash{31: 1})
	}
	st.SetBalance(c37B, uint256.NewInt(100), tracing.BalanceChangeUnspecified)
	st.SetCode(c37C1, c37Callee(func(a *c37Asm) { a.push(1); a.push(0); a.op(vm.SSTORE) }), tracing.CodeChangeUnspecified)
	st.SetCode(c37C2, c37Callee(func(a *c37Asm) { a.push(0); a.push(0); a.op(vm.REVERT) }), tracing.CodeChangeUnspecified)
	st.SetCode(c37C3, c37Callee(func(a *c37Asm) {
		for s := uint64(0); s < 3; s++ {
			a.push(1)
			a.push(s)
			a.op(vm.SSTORE)
		}
	}), tracing.CodeChangeUnspecified)
	for _, c := range []common.Address{c37C1, c37C2, c37C3} {
		st.SetNonce(c, 1, tracing.NonceChangeUnspecified)
	}
	st.SetBalance(c37E, uint256.NewInt(1), tracing.BalanceChangeUnspecified)
	rules := f.cfg.Rules(big.NewInt(10), true, 1000)
	root, err := st.Commit(rules, 9)
	if err != nil {
		return nil, err
	}
	return &c37Base{db: db, root: root}, nil
}

// ---------------------------------------------------------------------------
// configuration of one estimation request

type c37Req struct {
	Fork     string   `json:"fork"`
	Prog     []string `json:"program"`
	Value    uint64   `json:"value"`
	Balance  string   `json:"balance"` // zero | exact | exact-1 | ample
	FeeCap   uint64   `json:"fee_cap"`
	GasCap   uint64   `json:"gas_cap"`
	GasArg   uint64   `json:"gas_arg"`
	Blobs    int      `json:"blobs"`
	HdrLimit uint64   `json:"header_gas_limit"`
	Ratio    float64  `json:"error_ratio"`
	// Legacy: "" = 1559-style fee fields; "shared" = gas price with fee cap and tip cap pointing to the SAME value (as
	// internal/ethapi ToMessage builds legacy calls); "copies" = gas price with independent equal fee cap / tip cap
	Legacy string `json:"legacy_price,omitempty"`
}

const c37BlobFeeCap = 2

func c37Message(q c37Req) *core.Message {
	feeCap := uint256.NewInt(q.FeeCap)
	tip := uint256.NewInt(min(q.FeeCap, 2))
	// as internal/ethapi TransactionArgs.ToMessage does for 1559-style arguments
	gasPrice := uint256.NewInt(0)
	if q.FeeCap > 0 {
		gasPrice = new(uint256.Int).Add(tip, uint256.NewInt(7))
		if gasPrice.Cmp(feeCap) > 0 {
			gasPrice = feeCap.Clone()
		}
	}
	switch q.Legacy {
	case "shared":
		gasPrice = uint256.NewInt(q.FeeCap)
		feeCap, tip = gasPrice, gasPrice
	case "copies":
		gasPrice, feeCap, tip = uint256.NewInt(q.FeeCap), uint256.NewInt(q.FeeCap), uint256.NewInt(q.FeeCap)
	}
	to := c37B
	m := &core.Message{
		From: c37A, To: &to, Value: uint256.NewInt(q.Value), GasLimit: q.GasArg,
		GasPrice: gasPrice, GasFeeCap: feeCap, GasTipCap: tip,
		SkipNonceChecks: true, SkipTransactionChecks: true,
	}
	if q.Blobs > 0 {
		m.BlobGasFeeCap = uint256.NewInt(c37BlobFeeCap)
		for i := 0; i < q.Blobs; i++ {
			m.BlobHashes = append(m.BlobHashes, common.Hash{0: 0x01, 31: byte(i + 1)})
		}
	} else {
		m.BlobGasFeeCap = uint256.NewInt(0)
	}
	return m
}

// c37RefCap is the allowance cap written from the statement: the requested gas (or the block gas limit), the
// per-transaction cap where the fork has one (Osaka, lifted by Amsterdam), what the caller's balance can pay
// at the fee cap after value and blob fees, and the RPC gas cap. ok=false: nothing is affordable.
func c37RefCap(f c37Fork, q c37Req, balance *big.Int) (cap uint64, ok bool) {
	hi := new(big.Int).SetUint64(q.HdrLimit)
	if q.GasArg >= 21000 {
		hi.SetUint64(q.GasArg)
	}
	if f.osaka && !f.amsterdam && hi.Cmp(big.NewInt(1<<24)) > 0 {
		hi.SetInt64(1 << 24)
	}
	if q.FeeCap > 0 {
		avail := new(big.Int).Sub(balance, new(big.Int).SetUint64(q.Value))
		if avail.Sign() <= 0 {
			return 0, false
		}
		if f.cancun && q.Blobs > 0 {
			avail.Sub(avail, big.NewInt(int64(q.Blobs)*131072*c37BlobFeeCap))
			if avail.Sign() <= 0 {
				return 0, false
			}
		}
		allowance := avail.Quo(avail, new(big.Int).SetUint64(q.FeeCap))
		if allowance.Cmp(hi) < 0 {
			hi = allowance
		}
	}
	if q.GasCap != 0 && hi.Cmp(new(big.Int).SetUint64(q.GasCap)) > 0 {
		hi.SetUint64(q.GasCap)
	}
	return hi.Uint64(), true
}

// c37Apply executes the call with the given gas limit on a copy of the state, the way eth_call /
// eth_estimateGas executes a message (NoBaseFee, base fee zeroed for zero-price calls). Written
// independently of the estimator's run/execute helpers.
func c37Apply(f c37Fork, chain *c37Chain, hdr *types.Header, st *state.StateDB, m *core.Message, gas uint64) (ok bool, res *core.ExecutionResult, err error) {
	msg := *c37CloneMsg(m) // never let the oracle's own executions touch the caller's message
	msg.GasLimit = gas
	bctx := core.NewEVMBlockContext(hdr, chain, nil)
	if msg.GasPrice.Sign() == 0 {
		bctx.BaseFee = new(big.Int)
	}
	if msg.BlobGasFeeCap != nil && msg.BlobGasFeeCap.BitLen() == 0 {
		bctx.BlobBaseFee = new(big.Int)
	}
	evm := vm.NewEVM(bctx, st.Copy(), f.cfg, vm.Config{NoBaseFee: true})
	defer evm.Release()
	res, err = core.ApplyMessage(evm, &msg, nil)
	if err != nil {
		return false, nil, err
	}
	return !res.Failed(), res, nil
}

// c37CloneMsg deep-copies a message; fields that share one *uint256.Int in the original share one in the copy too.
func c37CloneMsg(m *core.Message) *core.Message {
	c := *m
	seen := map[*uint256.Int]*uint256.Int{}
	cl := func(p *uint256.Int) *uint256.Int {
		if p == nil {
			return nil
		}
		if q, ok := seen[p]; ok {
			return q
		}
		q := p.Clone()
		seen[p] = q
		return q
	}
	c.Value, c.GasPrice, c.GasFeeCap, c.GasTipCap, c.BlobGasFeeCap = cl(m.Value), cl(m.GasPrice), cl(m.GasFeeCap), cl(m.GasTipCap), cl(m.BlobGasFeeCap)
	if m.To != nil {
		to := *m.To
		c.To = &to
	}
	c.Data = append([]byte(nil), m.Data...)
	c.BlobHashes = append([]common.Hash(nil), m.BlobHashes...)
	c.AccessList = append(types.AccessList(nil), m.AccessList...)
	c.SetCodeAuthorizations = append([]types.SetCodeAuthorization(nil), m.SetCodeAuthorizations...)
	return &c
}

// c37MsgPrint renders every field of a message by value (immutability oracle).
func c37MsgPrint(m *core.Message) string {
	u := func(p *uint256.Int) string {
		if p == nil {
			return "nil"
		}
		return p.Dec()
	}
	to := "nil"
	if m.To != nil {
		to = m.To.Hex()
	}
	return fmt.Sprintf("from=%s to=%s nonce=%d value=%s gasLimit=%d gasPrice=%s gasFeeCap=%s gasTipCap=%s data=%x accessList=%v blobGasFeeCap=%s blobHashes=%x auths=%d skipNonce=%v skipTx=%v",
		m.From.Hex(), to, m.Nonce, u(m.Value), m.GasLimit, u(m.GasPrice), u(m.GasFeeCap), u(m.GasTipCap), m.Data, m.AccessList, u(m.BlobGasFeeCap), m.BlobHashes,
		len(m.SetCodeAuthorizations), m.SkipNonceChecks, m.SkipTransactionChecks)
}

// c37StatePrint renders the balances / nonces of the accounts of the world as read from st.
func c37StatePrint(st *state.StateDB) string {
	out := ""
	for _, a := range []common.Address{c37A, c37B, c37C1, c37C2, c37C3, c37E, c37F, c37CB} {
		out += fmt.Sprintf("%x:%s/%d/%d/%x ", a[:2], st.GetBalance(a).Dec(), st.GetNonce(a), st.GetCodeSize(a), st.GetState(a, common.Hash{}).Bytes()[31:])
	}
	return out
}

type c37World struct {
	f     c37Fork
	chain *c37Chain
	prog  c37Prog
	base  *c37Base
}

func c37Balance(kind string, q c37Req, exactGas uint64) *uint256.Int {
	blob := uint64(0)
	if q.Blobs > 0 {
		blob = uint64(q.Blobs) * 131072 * c37BlobFeeCap
	}
	exact := new(uint256.Int).Mul(uint256.NewInt(exactGas), uint256.NewInt(q.FeeCap))
	exact.Add(exact, uint256.NewInt(q.Value))
	exact.Add(exact, uint256.NewInt(blob))
	switch kind {
	case "zero":
		return uint256.NewInt(0)
	case "exact":
		return exact
	case "exact-1":
		if exact.IsZero() {
			return nil
		}
		return exact.SubUint64(exact, 1)
	default:
		return new(uint256.Int).Lsh(uint256.NewInt(1), 100)
	}
}

// c37Check runs one estimation request and checks the statement. minimal returns the estimate (0 if none).
func c37Check(w c37World, q c37Req, exactGas uint64, strict bool) (est uint64, outcome string, err error) {
	bal := c37Balance(q.Balance, q, exactGas)
	if bal == nil {
		return 0, "skipped", nil
	}
	st, err := w.base.open(bal)
	if err != nil {
		return 0, "", fmt.Errorf("harness: state: %v", err)
	}
	hdr := c37Header(w.f, q.HdrLimit)
	msg := c37Message(q)
	opts := &Options{Config: w.f.cfg, Chain: w.chain, Header: hdr, State: st, ErrorRatio: q.Ratio}
	rootBefore := st.IntermediateRoot(w.f.cfg.Rules(hdr.Number, true, hdr.Time))

	capRef, affordable := c37RefCap(w.f, q, bal.ToBig())
	okAtCap := false
	var capRes *core.ExecutionResult
	var capErr error
	if affordable {
		okAtCap, capRes, capErr = c37Apply(w.f, w.chain, hdr, st, msg, capRef)
	}
	msgBefore, stateBefore := c37MsgPrint(msg), c37StatePrint(st)
	got, revert, eerr := Estimate(context.Background(), msg, opts, q.GasCap)
	if msg.GasLimit != q.GasArg {
		return 0, "", fmt.Errorf("Estimate left call.GasLimit=%d (was %d)", msg.GasLimit, q.GasArg)
	}
	if after := c37MsgPrint(msg); after != msgBefore {
		return 0, "", fmt.Errorf("Estimate (or the executions it runs) modified the caller's message:\n before %s\n after  %s", msgBefore, after)
	}
	if after := c37StatePrint(st); after != stateBefore {
		return 0, "", fmt.Errorf("Estimate modified the caller's state:\n before %s\n after  %s", stateBefore, after)
	}
	if r := st.IntermediateRoot(w.f.cfg.Rules(hdr.Number, true, hdr.Time)); r != rootBefore {
		return 0, "", fmt.Errorf("Estimate modified the caller's state")
	}
	if !okAtCap {
		if eerr == nil {
			return 0, "", fmt.Errorf("call fails at the allowance cap %d (affordable=%v, err=%v) but Estimate returned %d without error", capRef, affordable, capErr, got)
		}
		if capRes != nil && errors.Is(capRes.Err, vm.ErrExecutionReverted) {
			if !errors.Is(eerr, vm.ErrExecutionReverted) {
				return 0, "", fmt.Errorf("call reverts at the cap but Estimate error is %v", eerr)
			}
			if !bytes.Equal(revert, capRes.Revert()) {
				return 0, "", fmt.Errorf("revert data %x, execution at the cap returned %x", revert, capRes.Revert())
			}
			return 0, "error_revert", nil
		}
		if !affordable {
			return 0, "error_unaffordable", nil
		}
		return 0, "error_other", nil
	}
	// succeeds at the cap => estimate exists, is sufficient and within every cap
	if eerr != nil {
		return 0, "", fmt.Errorf("call succeeds at the allowance cap %d but Estimate failed: %v", capRef, eerr)
	}
	over := ""
	switch {
	case got > capRef:
		over = fmt.Sprintf("allowance cap %d", capRef)
	case q.GasCap != 0 && got > q.GasCap:
		over = fmt.Sprintf("gas cap %d", q.GasCap)
	case w.f.osaka && !w.f.amsterdam && got > 1<<24:
		over = "per-transaction cap 2^24"
	}
	if q.FeeCap > 0 {
		need := new(big.Int).Mul(new(big.Int).SetUint64(got), new(big.Int).SetUint64(q.FeeCap))
		need.Add(need, new(big.Int).SetUint64(q.Value))
		if need.Cmp(bal.ToBig()) > 0 {
			over = fmt.Sprintf("caller's funds (%s needed, balance %s)", need, bal)
		}
	}
	if over != "" {
		return 0, "", fmt.Errorf("estimate %d exceeds the %s", got, over)
	}
	if ok, _, e := c37Apply(w.f, w.chain, hdr, st, msg, got); !ok {
		return 0, "", fmt.Errorf("estimate %d is not sufficient: execution fails (err=%v)", got, e)
	}
	outcome = "estimated"
	if q.Ratio == 0 && w.prog.class == c37Mono && got > 0 {
		ok, _, _ := c37Apply(w.f, w.chain, hdr, st, msg, got-1)
		if ok {
			if w.prog.plain && !strict {
				// plain transfers are answered with the constant 21000 without search (see report): not a contract program
				return got, "estimated_plain_transfer_not_minimal", nil
			}
			return 0, "", fmt.Errorf("estimate %d is not minimal for a gas-monotone program: %d also succeeds", got, got-1)
		}
		outcome = "estimated_minimal"
	}
	if q.Ratio > 0 && w.prog.class == c37Mono && exactGas > 0 && !w.prog.plain {
		// allowed over-estimation: (est - minimal)/est < ratio  (ratio = 15/1000)
		if got < exactGas {
			return 0, "", fmt.Errorf("estimate %d with error ratio %v is below the minimal gas %d", got, q.Ratio, exactGas)
		}
		lhs := new(big.Int).Mul(new(big.Int).SetUint64(got-exactGas), big.NewInt(1000))
		rhs := new(big.Int).Mul(new(big.Int).SetUint64(got), big.NewInt(15))
		if lhs.Cmp(rhs) >= 0 {
			return 0, "", fmt.Errorf("estimate %d over-estimates the minimal gas %d by more than the error ratio %v", got, exactGas, q.Ratio)
		}
		outcome = "estimated_within_ratio"
	}
	return got, outcome, nil
}

func TestVerif_C37(t *testing.T) {
	mc.Run(t, "C37", func(r *mc.R) {
		strict := os.Getenv("VERIF_C37_STRICT") == "1"
		units := c37Units()
		maxUnits := mc.Pick(r, 2, 3)
		progs := c37Programs(units, maxUnits)
		forks := c37Forks()
		r.Rule("[main] plain transfer + a program needing 20M gas (above the 2^24 transaction cap) + every program of <=2 units (thorough: <=3) over a 19-unit alphabet (SSTORE new/clear, SLOAD, MSTORE 8k, LOG1, KECCAK, CALL-and-require to a storing / heavy / reverting callee, value CALL to an existing / absent account, CREATE, " +
			"GAS floor; always failing: REVERT with data, INVALID, memory OOG, required reverting call; non-monotone: ignored heavy call, ignored fixed-gas call, GAS ceiling) x forks {paris, shanghai, cancun, prague, osaka, amsterdam} x 9 request shapes " +
			"(no fees; error ratio 0.015; value+fee cap 1e9+gas cap 1e6; balance exactly enough / one wei short at fee cap 7; gas cap 30000; explicit gas 100000; value with zero balance; fee cap below base fee); " +
			"[pre-London] the same programs on proof-of-work rule sets frontier, homestead, byzantium, berlin (no base fee; 2-unit programs with 5 request shapes, <=1-unit programs with all shapes) and a legacy grid value {0,50} x balance {exact, exact-1, ample} x gas price {3,1e9} x gas cap {0,1e6} x error ratio for 9 programs; " +
			"[legacy] on every rule set the fee-bearing shapes of <=1-unit programs are repeated with a legacy gas price whose fee cap / tip cap are the SAME *uint256.Int as the gas price (as internal/ethapi ToMessage builds them) and with independent copies; " +
			"[immutability] every field of the message (all integers by value, data, access list, blob hashes) and the balances / nonces / code sizes / slot 0 of all world accounts plus the state root are recorded before Estimate and must be identical afterwards; the oracle's own executions run on deep copies; " +
			"[grid] 9 representative programs x forks x value {0,50} x balance {zero, exact, exact-1, ample} x fee cap {0,1,7,1e9} x gas cap {0,30000,1e6} x blobs {0,1 (Cancun+)} x error ratio {0,0.015}; " +
			"every request: allowance cap computed from the statement, execution at the cap by an independent ApplyMessage driver; succeeds => Estimate returns no error, estimate <= every cap and funds, execution with the estimate succeeds, " +
			"estimate-1 fails (ratio 0, monotone program), over-estimation < ratio otherwise; fails => Estimate returns an error with the revert data of the execution at the cap; distinct = (fork, program, request)")
		r.Bound("units", len(units))
		r.Bound("programs", len(progs))
		r.Bound("max_units_per_program", maxUnits)
		r.Assume("success of a call with gas g = core.ApplyMessage with NoBaseFee on a copy of the state returns no error and no VM error (the meaning eth_estimateGas gives it); base fee 7, blob base fee 1, block gas limit 30M")
		r.Assume("monotone programs are marked by construction: no GAS-dependent branch other than a single floor, failures of inner calls are propagated; programs that ignore inner-call failures or have a GAS ceiling are only checked for sufficiency and caps")
		r.Assume("plain transfers (no code at the target) are answered with the constant 21000 after one trial execution; their minimality is reported as an outcome and asserted only with VERIF_C37_STRICT=1; RPC gas caps below 21000 are not enumerated")
		const hdrLimit = 30_000_000
		mainShapes := []c37Req{
			{Balance: "ample"},
			{Balance: "ample", Ratio: 0.015},
			{Value: 1, Balance: "ample", FeeCap: 1_000_000_000, GasCap: 1_000_000},
			{Balance: "exact", FeeCap: 7},
			{Balance: "exact-1", FeeCap: 7},
			{Balance: "ample", GasCap: 30000},
			{Balance: "ample", GasArg: 100000},
			{Value: 1, Balance: "zero"},
			{Balance: "ample", FeeCap: 1},
		}
		gridProgs := map[string]bool{"<plain-transfer>": true, "": true, "sstore_new": true, "sstore_clear": true, "call_req_store": true,
			"call_req_heavy": true, "create_req": true, "call_ign_heavy": true, "revert_data": true}
		var gridShapes []c37Req
		for _, v := range []uint64{0, 50} {
			for _, b := range []string{"zero", "exact", "exact-1", "ample"} {
				for _, fc := range []uint64{0, 1, 7, 1_000_000_000} {
					for _, gc := range []uint64{0, 30000, 1_000_000} {
						for _, bl := range []int{0, 1} {
							for _, ra := range []float64{0, 0.015} {
								gridShapes = append(gridShapes, c37Req{Value: v, Balance: b, FeeCap: fc, GasCap: gc, Blobs: bl, Ratio: ra})
							}
						}
					}
				}
			}
		}
		var legacyGrid []c37Req
		for _, v := range []uint64{0, 50} {
			for _, b := range []string{"exact", "exact-1", "ample"} {
				for _, price := range []uint64{3, 1_000_000_000} {
					for _, gc := range []uint64{0, 1_000_000} {
						for _, lg := range []string{"shared", "copies"} {
							for _, ra := range []float64{0, 0.015} {
								legacyGrid = append(legacyGrid, c37Req{Value: v, Balance: b, FeeCap: price, GasCap: gc, Legacy: lg, Ratio: ra})
							}
						}
					}
				}
			}
		}
		r.Bound("legacy_grid_shapes", len(legacyGrid))
		r.Bound("main_shapes", len(mainShapes))
		r.Bound("grid_shapes", len(gridShapes))
		type job struct{ fi, pi int }
		var jobs []job
		for fi := range forks {
			for pi := range progs {
				jobs = append(jobs, job{fi, pi})
			}
		}
		r.Parallel(len(jobs), func(ji int) {
			jb := jobs[ji]
			f, p := forks[jb.fi], progs[jb.pi]
			base, err := c37State(f, p)
			if err != nil {
				r.HarnessError(fmt.Sprintf("cannot build the pre-state: %v", err))
				return
			}
			w := c37World{f: f, chain: &c37Chain{cfg: f.cfg, eng: beacon.New(ethash.NewFaker())}, prog: p, base: base}
			counts := map[string]int64{}
			defer func() {
				keys := make([]string, 0, len(counts))
				for k := range counts {
					keys = append(keys, k)
				}
				sort.Strings(keys)
				for _, k := range keys {
					r.OutcomeN(k, counts[k])
				}
			}()
			name := ""
			for i, n := range p.names {
				if i > 0 {
					name += "+"
				}
				name += n
			}
			// minimal gas per value (ample balance, no caps, exact search): reference point for "exactly enough" balances
			exact := map[uint64]uint64{}
			runOne := func(q c37Req) {
				q.Fork, q.Prog, q.HdrLimit = f.name, p.names, hdrLimit
				if q.Blobs > 0 && !f.cancun {
					return
				}
				var oc string
				r.Case(q, func() error {
					est, o, err := c37Check(w, q, exact[q.Value], strict)
					oc = o
					if err == nil && q.Balance == "ample" && q.FeeCap == 0 && q.GasCap == 0 && q.GasArg == 0 && q.Ratio == 0 && q.Blobs == 0 {
						exact[q.Value] = est
					}
					return err
				})
				if oc != "" {
					counts[f.name+"/"+oc]++
				}
				r.DistinctHash(mc.Hash64(fmt.Sprintf("%s|%s|%d|%s|%d|%d|%d|%d|%v|%s", f.name, name, q.Value, q.Balance, q.FeeCap, q.GasCap, q.GasArg, q.Blobs, q.Ratio, q.Legacy)))
			}
			// reference points first (they are requests of the space themselves)
			runOne(c37Req{Balance: "ample"})
			runOne(c37Req{Value: 1, Balance: "ample"})
			small := len(p.names) <= 1
			if !f.preLondon || small {
				for _, q := range mainShapes[1:] {
					if r.Expired() {
						return
					}
					runOne(q)
				}
			}
			// legacy gas price requests, fee fields sharing one value (as ToMessage builds them) and as independent copies
			if small {
				for _, q := range mainShapes {
					if q.FeeCap == 0 || r.Expired() {
						continue
					}
					for _, lg := range []string{"shared", "copies"} {
						q.Legacy = lg
						runOne(q)
					}
				}
			} else if f.preLondon {
				runOne(c37Req{Value: 1, Balance: "ample", FeeCap: 1_000_000_000, GasCap: 1_000_000, Legacy: "shared"})
				runOne(c37Req{Balance: "exact", FeeCap: 7, Legacy: "copies"})
				runOne(c37Req{Balance: "ample", FeeCap: 3, Ratio: 0.015, Legacy: "shared"})
			}
			if f.preLondon && small && gridProgs[name] {
				runOne(c37Req{Value: 50, Balance: "ample"})
				for _, q := range legacyGrid {
					if r.Expired() {
						return
					}
					runOne(q)
				}
			}
			if !f.preLondon && len(p.names) <= 1 && gridProgs[name] {
				runOne(c37Req{Value: 50, Balance: "ample"})
				for _, q := range gridShapes {
					if r.Expired() {
						return
					}
					runOne(q)
				}
			}
			if ji%97 == 0 {
				r.Sample(c37Req{Fork: f.name, Prog: p.names, Balance: "ample", HdrLimit: hdrLimit})
			}
		})
	})
}
