//go:build verif

package filters

// C40, end-to-end part: Filter.Logs (eth/filters) against a direct scan of the canonical receipts, at every
// quiescent indexer state reached by the operation histories (extend / reorg / roll back / restart with a history
// limit / move the history cutoff), with tiny filtermaps Params. Exercises the real search session (mixed
// indexed/unindexed ranges, fallback, trimMatches), bloom pre-filter, false positive removal.

import (
	"context"
	"crypto/sha256"
	"encoding/binary"
	"fmt"
	"math/big"
	"strings"
	"sync"
	"testing"

	"github.com/ethereum/go-ethereum/common"
	"github.com/ethereum/go-ethereum/core"
	"github.com/ethereum/go-ethereum/core/filtermaps"
	"github.com/ethereum/go-ethereum/core/rawdb"
	"github.com/ethereum/go-ethereum/core/types"
	"github.com/ethereum/go-ethereum/ethdb"
	"github.com/ethereum/go-ethereum/event"
	"github.com/ethereum/go-ethereum/internal/verif/mc"
	"github.com/ethereum/go-ethereum/params"
	"github.com/ethereum/go-ethereum/rpc"
)

type c40fL struct {
	a int
	t []int
}

var c40fAddr = [3]common.Address{
	common.HexToAddress("0xa0a0a0a0a0a0a0a0a0a0a0a0a0a0a0a0a0a0a0a0"),
	common.HexToAddress("0xa1a1a1a1a1a1a1a1a1a1a1a1a1a1a1a1a1a1a1a1"),
	common.HexToAddress("0xa2a2a2a2a2a2a2a2a2a2a2a2a2a2a2a2a2a2a2a2"), // never emitted
}

var c40fTopic = [3]common.Hash{
	common.HexToHash("0x7070707070707070707070707070707070707070707070707070707070707070"),
	common.HexToHash("0x7171717171717171717171717171717171717171717171717171717171717171"),
	common.HexToHash("0x7272727272727272727272727272727272727272727272727272727272727272"), // never emitted
}

var c40fPat = [6][][]c40fL{
	{{{0, []int{0}}, {1, []int{0, 1}}}, {{0, []int{0, 1}}}},
	{},
	{{}, {{1, nil}, {1, []int{1, 0}}}},
	{{{0, []int{0, 0}}, {0, []int{0, 0}}}},
	{{{1, []int{1}}}, {{0, nil}, {0, []int{1, 1}}}},
	{{{0, []int{0, 1}}, {1, []int{0, 1}}}, {{1, []int{0}}, {0, []int{1, 0}}}},
}

type c40fBlk struct {
	path     string
	header   *types.Header
	hash     common.Hash
	body     *types.Body
	receipts types.Receipts
	logs     []*types.Log
}

var c40fUni sync.Map

func c40fBlock(path string) *c40fBlk {
	if v, ok := c40fUni.Load(path); ok {
		return v.(*c40fBlk)
	}
	h := &types.Header{
		Number:     big.NewInt(int64(len(path))),
		Difficulty: big.NewInt(1),
		GasLimit:   30_000_000,
		Time:       uint64(len(path)),
		Extra:      []byte("c40:" + path),
	}
	b := &c40fBlk{path: path, body: &types.Body{}}
	if len(path) > 0 {
		h.ParentHash = c40fBlock(path[:len(path)-1]).hash
		height := len(path)
		pat := c40fPat[(height-1)%6]
		swap := 0
		if path[len(path)-1] == 'b' {
			pat = c40fPat[(height+1)%6]
			swap = 1
		}
		var idx uint
		for ti, tx := range pat {
			t := types.NewTx(&types.LegacyTx{Nonce: uint64(height)<<8 | uint64(ti), Gas: 21000, GasPrice: big.NewInt(1)})
			b.body.Transactions = append(b.body.Transactions, t)
			rc := &types.Receipt{Status: 1, TransactionIndex: uint(ti), BlockNumber: big.NewInt(int64(height)), TxHash: t.Hash()}
			for _, l := range tx {
				lg := &types.Log{Address: c40fAddr[l.a^swap], BlockNumber: uint64(height), TxIndex: uint(ti), TxHash: t.Hash(), Index: idx, Topics: []common.Hash{}}
				for _, tp := range l.t {
					lg.Topics = append(lg.Topics, c40fTopic[tp])
				}
				idx++
				rc.Logs = append(rc.Logs, lg)
				b.logs = append(b.logs, lg)
			}
			rc.Bloom = types.CreateBloom(rc)
			b.receipts = append(b.receipts, rc)
		}
		h.Bloom = types.MergeBloom(b.receipts)
	}
	if b.receipts == nil {
		b.receipts = types.Receipts{}
	}
	b.header = h
	b.hash = h.Hash()
	for _, rc := range b.receipts {
		rc.BlockHash = b.hash
		for _, l := range rc.Logs {
			l.BlockHash = b.hash
			l.BlockTimestamp = h.Time
		}
	}
	v, _ := c40fUni.LoadOrStore(path, b)
	return v.(*c40fBlk)
}

// ---- backend

type c40fBackend struct {
	mu        sync.RWMutex
	db        ethdb.Database
	canonical []*c40fBlk
	byHash    map[common.Hash]*c40fBlk
	fm        *filtermaps.FilterMaps
}

func (b *c40fBackend) ChainDb() ethdb.Database          { return b.db }
func (b *c40fBackend) ChainConfig() *params.ChainConfig { return params.TestChainConfig }
func (b *c40fBackend) HistoryPruningCutoff() uint64     { return 0 }
func (b *c40fBackend) head() *c40fBlk {
	b.mu.RLock()
	defer b.mu.RUnlock()
	return b.canonical[len(b.canonical)-1]
}
func (b *c40fBackend) CurrentHeader() *types.Header { return b.head().header }
func (b *c40fBackend) HeaderByNumber(ctx context.Context, n rpc.BlockNumber) (*types.Header, error) {
	b.mu.RLock()
	defer b.mu.RUnlock()
	switch {
	case n == rpc.LatestBlockNumber:
		return b.canonical[len(b.canonical)-1].header, nil
	case n == rpc.EarliestBlockNumber:
		return b.canonical[0].header, nil
	case n < 0:
		return nil, nil
	case int(n) < len(b.canonical):
		return b.canonical[n].header, nil
	}
	return nil, nil
}
func (b *c40fBackend) blk(hash common.Hash) *c40fBlk {
	b.mu.RLock()
	defer b.mu.RUnlock()
	return b.byHash[hash]
}
func (b *c40fBackend) HeaderByHash(ctx context.Context, hash common.Hash) (*types.Header, error) {
	if x := b.blk(hash); x != nil {
		return x.header, nil
	}
	return nil, nil
}
func (b *c40fBackend) GetBody(ctx context.Context, hash common.Hash, number rpc.BlockNumber) (*types.Body, error) {
	if x := b.blk(hash); x != nil {
		return x.body, nil
	}
	return nil, fmt.Errorf("block body not found")
}
func (b *c40fBackend) GetReceipts(ctx context.Context, hash common.Hash) (types.Receipts, error) {
	if x := b.blk(hash); x != nil {
		return x.receipts, nil
	}
	return nil, nil
}

// GetLogs returns un-derived copies (the filter system fills in the derived fields of what it gets).
func (b *c40fBackend) GetLogs(ctx context.Context, hash common.Hash, number uint64) ([][]*types.Log, error) {
	x := b.blk(hash)
	if x == nil {
		return nil, nil
	}
	out := make([][]*types.Log, len(x.receipts))
	for i, rc := range x.receipts {
		for _, l := range rc.Logs {
			out[i] = append(out[i], &types.Log{Address: l.Address, Topics: append([]common.Hash{}, l.Topics...), Data: l.Data})
		}
	}
	return out, nil
}
func (b *c40fBackend) SubscribeNewTxsEvent(chan<- core.NewTxsEvent) event.Subscription { return nil }
func (b *c40fBackend) SubscribeChainEvent(chan<- core.ChainEvent) event.Subscription   { return nil }
func (b *c40fBackend) SubscribeRemovedLogsEvent(chan<- core.RemovedLogsEvent) event.Subscription {
	return nil
}
func (b *c40fBackend) SubscribeLogsEvent(chan<- []*types.Log) event.Subscription { return nil }
func (b *c40fBackend) CurrentView() *filtermaps.ChainView {
	h := b.head()
	return filtermaps.NewChainView(b, h.header.Number.Uint64(), h.hash)
}
func (b *c40fBackend) NewMatcherBackend() filtermaps.MatcherBackend { return b.fm.NewMatcherBackend() }

// filtermaps' blockchain interface
func (b *c40fBackend) GetHeader(hash common.Hash, number uint64) *types.Header {
	if x := b.blk(hash); x != nil {
		return x.header
	}
	return nil
}
func (b *c40fBackend) GetCanonicalHash(number uint64) common.Hash {
	b.mu.RLock()
	defer b.mu.RUnlock()
	if number < uint64(len(b.canonical)) {
		return b.canonical[number].hash
	}
	return common.Hash{}
}
func (b *c40fBackend) GetReceiptsByHash(hash common.Hash) types.Receipts {
	if x := b.blk(hash); x != nil {
		return x.receipts
	}
	return nil
}
func (b *c40fBackend) GetRawReceipts(hash common.Hash, number uint64) types.Receipts {
	return b.GetReceiptsByHash(hash)
}

// ---- query set

type c40fFilter struct {
	addrs  []common.Address
	topics [][]common.Hash
	desc   string
}

var c40fFilters = func() []c40fFilter {
	asets := [][]int{{}, {0}, {1}, {0, 1}, {2}, {0, 2}}
	tsets := [][]int{{}, {0}, {1}, {0, 1}, {2}}
	var tlists [][][]int
	tlists = append(tlists, nil)
	for _, p0 := range tsets {
		tlists = append(tlists, [][]int{p0})
	}
	for _, p0 := range tsets {
		for _, p1 := range tsets {
			tlists = append(tlists, [][]int{p0, p1})
		}
	}
	var out []c40fFilter
	for _, as := range asets {
		for _, tl := range tlists {
			f := c40fFilter{desc: fmt.Sprintf("addr%v topics%v", as, tl)}
			for _, a := range as {
				f.addrs = append(f.addrs, c40fAddr[a])
			}
			for _, p := range tl {
				var pos []common.Hash
				for _, t := range p {
					pos = append(pos, c40fTopic[t])
				}
				f.topics = append(f.topics, pos)
			}
			out = append(out, f)
		}
	}
	return out
}()

func c40fMatch(l *types.Log, f *c40fFilter) bool {
	if len(f.addrs) > 0 {
		ok := false
		for _, a := range f.addrs {
			ok = ok || a == l.Address
		}
		if !ok {
			return false
		}
	}
	if len(f.topics) > len(l.Topics) {
		return false
	}
	for i, pos := range f.topics {
		if len(pos) == 0 {
			continue
		}
		ok := false
		for _, t := range pos {
			ok = ok || t == l.Topics[i]
		}
		if !ok {
			return false
		}
	}
	return true
}

// ---- system

type c40fOp struct {
	name string
	kind int // 0 ext, 1 reorg, 2 back, 3 hist, 4 cut
	d, n int
}

type c40fCfg struct {
	name   string
	params filtermaps.Params
	maxLen int
	ops    []c40fOp
	full   bool
	r      *mc.R
	seen   sync.Map // state key -> verdict already computed
}

type c40fSys struct {
	cfg     *c40fCfg
	be      *c40fBackend
	sys     *FilterSystem
	path    string
	history uint64
	cutoff  uint64
	err     error
}

func c40fNew(cfg *c40fCfg) *c40fSys {
	s := &c40fSys{cfg: cfg, be: &c40fBackend{db: rawdb.NewMemoryDatabase(), byHash: map[common.Hash]*c40fBlk{}}}
	s.sys = NewFilterSystem(s.be, Config{})
	s.setCanonical("aaa")
	s.start()
	s.be.fm.WaitIdle()
	s.err = s.checkAll("init")
	return s
}

func (s *c40fSys) setCanonical(path string) {
	s.be.mu.Lock()
	s.be.canonical = s.be.canonical[:0]
	for i := 0; i <= len(path); i++ {
		b := c40fBlock(path[:i])
		s.be.canonical = append(s.be.canonical, b)
		s.be.byHash[b.hash] = b
	}
	s.be.mu.Unlock()
	s.path = path
}

func (s *c40fSys) start() {
	fm, err := filtermaps.NewFilterMaps(s.be.db, s.be.CurrentView(), s.cutoff, 0, s.cfg.params, filtermaps.Config{History: s.history})
	if err != nil {
		panic(err)
	}
	s.be.fm = fm
	fm.Start()
}

func (s *c40fSys) close() {
	s.be.fm.Stop()
	s.be.db.Close()
}

func (s *c40fSys) dbHash() string {
	h := sha256.New()
	it := s.be.db.NewIterator(nil, nil)
	var buf [8]byte
	for it.Next() {
		binary.BigEndian.PutUint64(buf[:], uint64(len(it.Key())))
		h.Write(buf[:])
		h.Write(it.Key())
		h.Write(it.Value())
	}
	it.Release()
	return string(h.Sum(nil))
}

func (s *c40fSys) Key() string {
	return fmt.Sprintf("%s|%d|%d|%s|%s", s.path, s.history, s.cutoff, s.be.fm.VerifC40State(), s.dbHash())
}

func (s *c40fSys) Enabled(op int) bool {
	o, n := s.cfg.ops[op], len(s.path)
	switch o.kind {
	case 0:
		return n+o.n <= s.cfg.maxLen
	case 1:
		return n-o.d >= 0 && n-o.d+o.n <= s.cfg.maxLen
	case 2:
		return n-o.d >= 1
	case 3:
		return true
	case 4:
		return uint64(o.n) != s.cutoff && o.n <= n
	}
	return false
}

func (s *c40fSys) Apply(op int) error {
	if s.err != nil {
		return s.err
	}
	o, n := s.cfg.ops[op], len(s.path)
	switch o.kind {
	case 0:
		s.setCanonical(s.path + strings.Repeat("a", o.n))
	case 1:
		flip := "a"
		if s.path[n-o.d] == 'a' {
			flip = "b"
		}
		s.setCanonical(s.path[:n-o.d] + flip + strings.Repeat("a", o.n-1))
	case 2:
		s.setCanonical(s.path[:n-o.d])
	case 3:
		s.be.fm.Stop()
		s.history = uint64(o.n)
		s.start()
	case 4:
		s.cutoff = uint64(o.n)
	}
	if o.kind != 3 {
		s.be.fm.SetTarget(s.be.CurrentView(), s.cutoff, 0)
	}
	s.be.fm.WaitIdle()
	s.err = s.checkAll(o.name)
	return s.err
}

// checkAll runs the query set through Filter.Logs on the quiescent state and compares with the direct scan.
func (s *c40fSys) checkAll(label string) error {
	key := s.Key()
	v, _ := s.cfg.seen.LoadOrStore(key, &struct {
		once sync.Once
		err  error
	}{})
	slot := v.(*struct {
		once sync.Once
		err  error
	})
	slot.once.Do(func() { slot.err = s.checkState(label) })
	return slot.err
}

func (s *c40fSys) checkState(label string) error {
	r := s.cfg.r
	head := int64(len(s.path))
	state := s.be.fm.VerifC40State()
	r.Distinct(s.Key())
	if strings.Contains(state, "disabled=true") {
		r.Outcome("state:indexer-disabled")
	} else if strings.Contains(state, "blocks=[0,") {
		r.Outcome("state:indexed-from-genesis")
	} else {
		r.Outcome("state:tail-unindexed")
	}
	type rg struct{ b, e int64 }
	var all []rg
	for b := int64(0); b <= head+1; b++ {
		for e := b; e <= head+1; e++ {
			all = append(all, rg{b, e})
		}
	}
	special := []rg{{rpc.LatestBlockNumber.Int64(), rpc.LatestBlockNumber.Int64()}, {0, rpc.LatestBlockNumber.Int64()},
		{rpc.EarliestBlockNumber.Int64(), rpc.LatestBlockNumber.Int64()}, {head - 1, rpc.LatestBlockNumber.Int64()}}
	ctx := context.Background()
	var nOK, nErr, nNonEmpty int64
	for fi := range c40fFilters {
		flt := &c40fFilters[fi]
		core := len(flt.topics) <= 1 && len(flt.addrs) <= 1 && !strings.Contains(flt.desc, "2")
		var ranges []rg
		if s.cfg.full || core {
			ranges = append(ranges, special...)
		} else {
			ranges = append(ranges, special[3])
		}
		for _, x := range all {
			if s.cfg.full || core || (x.b == 0 && x.e == head) || (x.b == 1 && x.e == head+1) || (x.b == 2 && x.e == head-1) {
				ranges = append(ranges, x)
			}
		}
		for _, x := range ranges {
			if x.b >= 0 && x.e >= 0 && x.b > x.e {
				continue
			}
			res, err := s.sys.NewRangeFilter(x.b, x.e, flt.addrs, flt.topics, 0).Logs(ctx)
			r.Eval(1)
			first, last := x.b, x.e
			if first == rpc.LatestBlockNumber.Int64() {
				first = head
			}
			if first == rpc.EarliestBlockNumber.Int64() {
				first = 0
			}
			if last == rpc.LatestBlockNumber.Int64() {
				last = head
			}
			desc := func() string {
				return fmt.Sprintf("%s: filter {%s} blocks [%d,%d] on chain %q, index {%s}", label, flt.desc, x.b, x.e, s.path, state)
			}
			if last > head {
				if err == nil {
					return fmt.Errorf("%s: range beyond the head accepted without error (%d logs)", desc(), len(res))
				}
				nErr++
				continue
			}
			if err != nil {
				return fmt.Errorf("%s: error %v", desc(), err)
			}
			var exp []*types.Log
			for n := first; n <= last; n++ {
				for _, l := range c40fBlock(s.path[:n]).logs {
					if c40fMatch(l, flt) {
						exp = append(exp, l)
					}
				}
			}
			same := len(res) == len(exp)
			for i := 0; same && i < len(res); i++ {
				g, e := res[i], exp[i]
				same = g.BlockNumber == e.BlockNumber && g.Index == e.Index && g.BlockHash == e.BlockHash && g.TxHash == e.TxHash &&
					g.TxIndex == e.TxIndex && g.Address == e.Address && len(g.Topics) == len(e.Topics)
				for j := 0; same && j < len(g.Topics); j++ {
					same = g.Topics[j] == e.Topics[j]
				}
			}
			if !same {
				return fmt.Errorf("%s: Filter.Logs returned %s, direct scan of canonical receipts gives %s", desc(), c40fStr(res), c40fStr(exp))
			}
			nOK++
			if len(exp) > 0 {
				nNonEmpty++
			}
		}
	}
	r.OutcomeN("queries:equal-to-scan", nOK)
	r.OutcomeN("queries:equal-to-scan(non-empty)", nNonEmpty)
	r.OutcomeN("queries:beyond-head-rejected", nErr)
	return nil
}

func c40fStr(ls []*types.Log) string {
	var sb strings.Builder
	sb.WriteByte('[')
	for i, l := range ls {
		if i > 0 {
			sb.WriteByte(' ')
		}
		fmt.Fprintf(&sb, "%d.%d", l.BlockNumber, l.Index)
	}
	sb.WriteByte(']')
	return sb.String()
}

func TestVerif_C40_Filters(t *testing.T) {
	mc.Run(t, "C40", func(r *mc.R) {
		r.Rule("breadth-first exploration of operation histories {extend 1-3, reorg depth 1-3, roll back, restart with history limit, move history cutoff} on a backend with the real FilterMaps indexer (tiny Params); " +
			"at every quiescent state Filter.Logs is called for 6 address sets (incl. a never-emitted address) x 31 topic patterns (incl. a never-emitted topic) x block ranges " +
			"(thorough: all 0<=first<=last<=head+1 and 4 latest/earliest forms; quick: that for the 12 filters with at most one emitted address and one topic position, 4 ranges for the others); " +
			"distinct = distinct (chain, history, cutoff, index database) states")
		r.Assume("reference = direct scan of the canonical receipts with a predicate transcribed from the eth_getLogs filter semantics; queries run while the indexer is idle (no concurrent index update in this part)")
		r.Bound("filters", len(c40fFilters))
		ops := []c40fOp{
			{"ext1", 0, 0, 1}, {"ext2", 0, 0, 2}, {"ext3", 0, 0, 3},
			{"reorg1+1", 1, 1, 1}, {"reorg2+2", 1, 2, 2}, {"reorg3+3", 1, 3, 3}, {"back1", 2, 1, 0},
			{"hist0", 3, 0, 0}, {"hist1", 3, 0, 1}, {"hist3", 3, 0, 3}, {"cut0", 4, 0, 0}, {"cut2", 4, 0, 2},
		}
		for _, pl := range []struct {
			name string
			p    filtermaps.Params
		}{{"filters-tiny", filtermaps.VerifC40Tiny}, {"filters-mid", filtermaps.VerifC40Mid}} {
			if r.Expired() {
				break
			}
			cfg := &c40fCfg{name: pl.name, params: pl.p, maxLen: mc.Pick(r, 7, 10), ops: ops, full: r.Thorough(), r: r}
			var names []string
			for _, o := range ops {
				names = append(names, o.name)
			}
			r.Explore(mc.Config{
				Name:  "C40/" + pl.name,
				Ops:   names,
				Depth: mc.Pick(r, 2, 3),
				New:   func() mc.Sys { return c40fNew(cfg) },
				Close: func(s mc.Sys) { s.(*c40fSys).close() },
			})
		}
	})
}
