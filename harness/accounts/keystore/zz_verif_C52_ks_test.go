//go:build verif

package keystore

// C52, second part — the KeyStore account manager as a state machine.
//
// Explicit-state exploration (mc.Explore) of every sequence of KeyStore operations on
// two accounts, against a model {key file present, passphrase the file is encrypted
// with, unlock state}. Oracle: an operation that takes a passphrase succeeds exactly
// when the passphrase is the one the key file is currently encrypted with - whatever
// the unlock state -, signing without passphrase works exactly when unlocked, Export's
// output decrypts only with the new passphrase and yields the same key, after Update
// only the new passphrase decrypts the file, a failing operation changes nothing
// (key file bytes, unlocked map, account list). Key files are read back with the
// reference decryptor of zz_verif_C52_test.go (independent of passphrase.go).

import (
	"bytes"
	"crypto/ecdsa"
	"crypto/sha256"
	"errors"
	"fmt"
	"os"
	"path/filepath"
	"sort"
	"strings"
	"sync/atomic"
	"testing"
	"time"

	"github.com/ethereum/go-ethereum/accounts"
	"github.com/ethereum/go-ethereum/common"
	"github.com/ethereum/go-ethereum/crypto"
	"github.com/ethereum/go-ethereum/internal/verif/mc"
	"github.com/google/uuid"
)

var c52ksPasses = []string{"a", "b"} // both can be the file passphrase (Update switches); the other one - in particular the previous one - is the wrong one
const c52ksExportPass = "export-pw"
const c52ksJSONPass = "json-pw"

type c52ksOp struct {
	name string
	kind string // import importjson unlock timed lock sign signpw export update delete
	acc  int
	pass string
	new  string
}

type c52ksAccount struct {
	priv *ecdsa.PrivateKey
	addr common.Address
	d    []byte
	json []byte // account 1 can also be imported from this key file (encrypted with c52ksJSONPass)
}

type c52ksModelAcc struct {
	present bool
	pass    string // passphrase the key file is encrypted with
	unlock  string // "", "indef", "timed"
}

type c52ksSys struct {
	r    *mc.R
	ops  []c52ksOp
	accs []*c52ksAccount
	dir  string
	final bool // set by Enabled: the next Apply is the explored transition (or a replayed counterexample step)
	ks   *KeyStore
	m    [2]c52ksModelAcc
	last string
}

var c52ksCounter atomic.Int64

func c52ksAccounts() []*c52ksAccount {
	var out []*c52ksAccount
	for i := 0; i < 2; i++ {
		h := sha256.Sum256([]byte(fmt.Sprint("c52-ks-key-", i)))
		priv, err := crypto.ToECDSA(h[:])
		if err != nil {
			panic(err)
		}
		a := &c52ksAccount{priv: priv, addr: crypto.PubkeyToAddress(priv.PublicKey), d: h[:]}
		idh := sha256.Sum256([]byte(fmt.Sprint("c52-ks-id-", i)))
		id, _ := uuid.FromBytes(idh[:16])
		salt := sha256.Sum256([]byte(fmt.Sprint("c52-ks-salt-", i)))
		a.json = c52RefEncrypt(a.d, a.addr, id, c52ksJSONPass, c52KDF{Name: "scrypt", N: 2, R: 8, P: 1, DKLen: 32}, salt[:], salt[:16])
		out = append(out, a)
	}
	return out
}

func c52ksAlphabet() []c52ksOp {
	var ops []c52ksOp
	for acc := 0; acc < 2; acc++ {
		n := func(f string, a ...any) string { return fmt.Sprintf("%s[%d]", fmt.Sprintf(f, a...), acc) }
		if acc == 0 {
			ops = append(ops, c52ksOp{name: n("importECDSA(a)"), kind: "import", acc: acc, new: "a"})
		} else {
			ops = append(ops, c52ksOp{name: n("importJSON(right,b)"), kind: "importjson", acc: acc, pass: c52ksJSONPass, new: "b"})
			ops = append(ops, c52ksOp{name: n("importJSON(wrong,b)"), kind: "importjson", acc: acc, pass: "zz", new: "b"})
		}
		for _, p := range c52ksPasses {
			ops = append(ops, c52ksOp{name: n("unlock(%s)", p), kind: "unlock", acc: acc, pass: p})
		}
		for _, p := range c52ksPasses {
			ops = append(ops, c52ksOp{name: n("timedUnlock(%s)", p), kind: "timed", acc: acc, pass: p})
		}
		ops = append(ops, c52ksOp{name: n("lock"), kind: "lock", acc: acc})
		ops = append(ops, c52ksOp{name: n("signHash"), kind: "sign", acc: acc})
		for _, p := range c52ksPasses {
			ops = append(ops, c52ksOp{name: n("signHashWithPassphrase(%s)", p), kind: "signpw", acc: acc, pass: p})
		}
		for _, p := range c52ksPasses {
			ops = append(ops, c52ksOp{name: n("export(%s)", p), kind: "export", acc: acc, pass: p, new: c52ksExportPass})
		}
		for _, p := range c52ksPasses {
			for _, np := range []string{"a", "b"} {
				ops = append(ops, c52ksOp{name: n("update(%s->%s)", p, np), kind: "update", acc: acc, pass: p, new: np})
			}
		}
		for _, p := range c52ksPasses {
			ops = append(ops, c52ksOp{name: n("delete(%s)", p), kind: "delete", acc: acc, pass: p})
		}
	}
	return ops
}

func c52ksNew(r *mc.R, ops []c52ksOp, accs []*c52ksAccount, scratch string) *c52ksSys {
	s := &c52ksSys{r: r, ops: ops, accs: accs}
	s.dir = filepath.Join(scratch, fmt.Sprintf("ks-%d", c52ksCounter.Add(1)))
	if err := os.MkdirAll(s.dir, 0o700); err != nil {
		panic(err)
	}
	// NewKeyStore without the file system watcher: every change of the directory goes through the KeyStore API, which
	// updates the account cache synchronously; the watcher goroutine (fsnotify, debounced rescans) would only add
	// timing-dependent re-reads of the same content.
	// (KeyStore.init would list the accounts once, which starts the watcher; the fields are set as init sets them.)
	ks := &KeyStore{storage: &keyStorePassphrase{s.dir, 2, 1, false}, unlocked: make(map[common.Address]*unlocked)}
	ks.cache, ks.changes = newAccountCache(s.dir)
	ks.cache.watcher.running = true
	s.ks = ks
	return s
}

func (s *c52ksSys) close() {
	s.ks.mu.Lock()
	for _, u := range s.ks.unlocked {
		if u.abort != nil {
			close(u.abort) // ends the expiry goroutine of a timed unlock
		}
	}
	s.ks.unlocked = map[common.Address]*unlocked{}
	s.ks.mu.Unlock()
	os.RemoveAll(s.dir)
}

func (s *c52ksSys) Enabled(op int) bool { s.final = true; return true }

// snapshot: everything a failing operation must leave alone.
type c52ksSnap struct {
	files    map[string]string // name -> content
	unlocked map[common.Address]*unlocked
	accounts string
}

func (s *c52ksSys) snap() c52ksSnap {
	sn := c52ksSnap{files: map[string]string{}, unlocked: map[common.Address]*unlocked{}}
	entries, _ := os.ReadDir(s.dir)
	for _, e := range entries {
		b, _ := os.ReadFile(filepath.Join(s.dir, e.Name()))
		sn.files[e.Name()] = string(b)
	}
	s.ks.mu.RLock()
	for a, u := range s.ks.unlocked {
		sn.unlocked[a] = u
	}
	s.ks.mu.RUnlock()
	var as []string
	for _, a := range s.ks.Accounts() {
		as = append(as, a.Address.Hex()+"@"+filepath.Base(a.URL.Path))
	}
	sort.Strings(as)
	sn.accounts = strings.Join(as, ",")
	return sn
}

func (a c52ksSnap) equal(b c52ksSnap) error {
	if len(a.files) != len(b.files) {
		return fmt.Errorf("number of files in the key directory changed from %d to %d", len(a.files), len(b.files))
	}
	for n, c := range a.files {
		if b.files[n] != c {
			return fmt.Errorf("key file %s was rewritten / removed", n)
		}
	}
	if len(a.unlocked) != len(b.unlocked) {
		return fmt.Errorf("set of unlocked accounts changed")
	}
	for addr, u := range a.unlocked {
		if b.unlocked[addr] != u {
			return fmt.Errorf("unlock entry of %x changed", addr)
		}
	}
	if a.accounts != b.accounts {
		return fmt.Errorf("account list changed from [%s] to [%s]", a.accounts, b.accounts)
	}
	return nil
}

func (s *c52ksSys) checkSig(acc *c52ksAccount, hash, sig []byte) error {
	pub, err := crypto.SigToPub(hash, sig)
	if err != nil {
		return fmt.Errorf("signature does not recover: %v", err)
	}
	if crypto.PubkeyToAddress(*pub) != acc.addr {
		return fmt.Errorf("signature made by %x, not by the account %x", crypto.PubkeyToAddress(*pub), acc.addr)
	}
	return nil
}

func (s *c52ksSys) Apply(opi int) error {
	op := s.ops[opi]
	acc := s.accs[op.acc]
	m := &s.m[op.acc]
	a := accounts.Account{Address: acc.addr}
	hash := sha256.Sum256([]byte("c52-ks-msg|" + op.name))
	final := s.final
	s.final = false
	var before c52ksSnap
	if final { // prefix replays were checked when first explored; none of the checks below has side effects
		before = s.snap()
	}
	var err error
	expectOK := false
	rightPass := m.present && op.pass == m.pass // the only thing a passphrase-taking operation may depend on
	switch op.kind {
	case "import":
		_, err = s.ks.ImportECDSA(acc.priv, op.new)
		expectOK = !m.present
		if expectOK {
			m.present, m.pass = true, op.new
		} else if !errors.Is(err, ErrAccountAlreadyExists) {
			return fmt.Errorf("%s: importing an existing account: %v, want ErrAccountAlreadyExists", op.name, err)
		}
	case "importjson":
		_, err = s.ks.Import(acc.json, op.pass, op.new)
		expectOK = op.pass == c52ksJSONPass && !m.present
		if expectOK {
			m.present, m.pass = true, op.new
		} else if op.pass != c52ksJSONPass && !errors.Is(err, ErrDecrypt) {
			return fmt.Errorf("%s: Import with the wrong passphrase of the JSON: %v, want ErrDecrypt", op.name, err)
		}
	case "unlock":
		err = s.ks.Unlock(a, op.pass)
		expectOK = rightPass
		if expectOK {
			m.unlock = "indef"
		}
	case "timed":
		err = s.ks.TimedUnlock(a, op.pass, time.Hour)
		expectOK = rightPass
		if expectOK && m.unlock != "indef" {
			m.unlock = "timed"
		}
	case "lock":
		err = s.ks.Lock(acc.addr)
		expectOK = true
		m.unlock = ""
	case "sign":
		var sig []byte
		sig, err = s.ks.SignHash(a, hash[:])
		expectOK = m.unlock != ""
		if err == nil {
			if e := s.checkSig(acc, hash[:], sig); e != nil {
				return fmt.Errorf("%s: %v", op.name, e)
			}
		} else if !expectOK && !errors.Is(err, ErrLocked) {
			return fmt.Errorf("%s: %v, want ErrLocked", op.name, err)
		}
	case "signpw":
		var sig []byte
		sig, err = s.ks.SignHashWithPassphrase(a, op.pass, hash[:])
		expectOK = rightPass
		if err == nil {
			if e := s.checkSig(acc, hash[:], sig); e != nil {
				return fmt.Errorf("%s: %v", op.name, e)
			}
		}
	case "export":
		var out []byte
		out, err = s.ks.Export(a, op.pass, op.new)
		expectOK = rightPass
		if err == nil {
			_, plain, e := c52RefDecrypt(out, op.new)
			if e != nil || !bytes.Equal(plain, acc.d) {
				return fmt.Errorf("%s: exported key file does not decrypt with the new passphrase to the account's key (%v)", op.name, e)
			}
			for _, q := range append([]string{c52ksJSONPass}, c52ksPasses...) {
				if _, _, e := c52RefDecrypt(out, q); e == nil {
					return fmt.Errorf("%s: exported key file also decrypts with %q", op.name, q)
				}
			}
			if k, e := DecryptKey(out, op.new); e != nil || k.Address != acc.addr {
				return fmt.Errorf("%s: DecryptKey on the exported file: %v", op.name, e)
			}
		}
	case "update":
		err = s.ks.Update(a, op.pass, op.new)
		expectOK = rightPass
		if expectOK {
			m.pass = op.new
		}
	case "delete":
		err = s.ks.Delete(a, op.pass)
		expectOK = rightPass
		if expectOK {
			m.present, m.pass = false, "" // (the unlocked key, if any, stays in memory: KeyStore.Delete does not lock)
		}
	}
	cls := "ok"
	if err != nil {
		cls = "err"
	}
	s.last = op.kind + ":" + cls
	if (err == nil) != expectOK {
		st := fmt.Sprintf("present=%v file-passphrase=%q unlock=%q", s.m[op.acc].present, s.m[op.acc].pass, s.m[op.acc].unlock)
		if err == nil {
			return fmt.Errorf("%s succeeded although the passphrase is not the one the key file is encrypted with / the precondition does not hold (model after: %s)", op.name, st)
		}
		return fmt.Errorf("%s failed (%v) although it must succeed (model after: %s)", op.name, err, st)
	}
	if err != nil && op.pass != "" && m.present && op.pass != m.pass && !errors.Is(err, ErrDecrypt) && op.kind != "importjson" {
		return fmt.Errorf("%s with a wrong passphrase: error %q, want ErrDecrypt", op.name, err)
	}
	if !final {
		return nil
	}
	if err != nil || op.kind == "sign" || op.kind == "signpw" || op.kind == "export" {
		// failing operations and pure reads change nothing
		if e := before.equal(s.snap()); e != nil {
			return fmt.Errorf("%s (%s) changed the key store: %v", op.name, cls, e)
		}
	}
	return s.observe(op.name)
}

// observe compares the complete observable state with the model.
func (s *c52ksSys) observe(after string) error {
	list := s.ks.Accounts()
	entries, _ := os.ReadDir(s.dir)
	nPresent := 0
	for i, acc := range s.accs {
		m := s.m[i]
		if s.ks.HasAddress(acc.addr) != m.present {
			return fmt.Errorf("after %s: HasAddress(account %d)=%v, model present=%v", after, i, !m.present, m.present)
		}
		s.ks.mu.RLock()
		u, unl := s.ks.unlocked[acc.addr]
		s.ks.mu.RUnlock()
		if unl != (m.unlock != "") || (unl && (u.abort != nil) != (m.unlock == "timed")) {
			return fmt.Errorf("after %s: account %d unlocked=%v timed=%v, model %q", after, i, unl, unl && u.abort != nil, m.unlock)
		}
		if unl && (u.PrivateKey.D.Cmp(acc.priv.D) != 0 || u.Address != acc.addr) {
			return fmt.Errorf("after %s: the unlocked key of account %d is not its key", after, i)
		}
		if !m.present {
			continue
		}
		nPresent++
		var path string
		for _, a := range list {
			if a.Address == acc.addr {
				path = a.URL.Path
			}
		}
		file, err := os.ReadFile(path)
		if err != nil {
			return fmt.Errorf("after %s: key file of account %d: %v", after, i, err)
		}
		for _, q := range append([]string{c52ksJSONPass, c52ksExportPass, "zz", ""}, c52ksPasses...) {
			_, plain, e := c52RefDecrypt(file, q)
			if q == m.pass {
				if e != nil || !bytes.Equal(plain, acc.d) {
					return fmt.Errorf("after %s: key file of account %d does not decrypt with its passphrase %q (%v)", after, i, q, e)
				}
			} else if e == nil {
				return fmt.Errorf("after %s: key file of account %d decrypts with %q, its passphrase is %q", after, i, q, m.pass)
			}
		}
	}
	if len(list) != nPresent || len(entries) != nPresent {
		return fmt.Errorf("after %s: %d accounts listed, %d files in the directory, model has %d", after, len(list), len(entries), nPresent)
	}
	return nil
}

func (s *c52ksSys) Key() string {
	var sb strings.Builder
	for i, acc := range s.accs {
		m := s.m[i]
		s.ks.mu.RLock()
		u, unl := s.ks.unlocked[acc.addr]
		s.ks.mu.RUnlock()
		fmt.Fprintf(&sb, "[%d present=%v pass=%s unlock=%s | real unlocked=%v timed=%v listed=%v]", i, m.present, m.pass, m.unlock,
			unl, unl && u.abort != nil, s.ks.HasAddress(acc.addr))
	}
	return sb.String()
}

func TestVerif_C52_KeyStore(t *testing.T) {
	mc.Run(t, "C52", func(r *mc.R) {
		depth := mc.Pick(r, 7, 9) // the 81 model states are all reached by depth 6; depth 7 expands every one of them
		ops := c52ksAlphabet()
		accs := c52ksAccounts()
		scratch := c52Scratch(t)
		names := make([]string, len(ops))
		for i, o := range ops {
			names[i] = o.name
		}
		r.Rule("BFS over all sequences (de-duplicated by model state + unlocked map + account list) of KeyStore operations on two accounts: ImportECDSA / Import(JSON, right|wrong), " +
			"Unlock, TimedUnlock(1h), SignHashWithPassphrase, Export, Delete each with passphrase in {a, b}, Update {a,b} -> {a,b}, Lock, SignHash; " +
			"after every transition the key files are read back with the reference decryptor under every passphrase, the unlocked map and account list are compared with the model")
		r.Bound("accounts", 2)
		r.Bound("passphrases", len(c52ksPasses))
		r.Assume("the fsnotify directory watcher of the account cache is disabled (watcher.running preset): directory changes happen only through the KeyStore API")
		r.Assume("timed unlocks use a 1 h timeout that never fires during a run; expiry is not explored")
		r.Explore(mc.Config{
			Name:  "keystore",
			Ops:   names,
			Depth: depth,
			New:   func() mc.Sys { return c52ksNew(r, ops, accs, scratch) },
			Close: func(x mc.Sys) {
				s := x.(*c52ksSys)
				if s.last != "" {
					r.Outcome(s.last)
				}
				s.close()
			},
		})
	})
}
