//go:build verif

package keystore

// C52 — keystore files decrypt only with the right passphrase.
//
// Complete enumeration of keys x passphrases x light KDF parameters x all ordered
// (right, wrong) passphrase pairs through EncryptKey / DecryptKey and through
// keyStorePassphrase.StoreKey / GetKey, differential against c52RefEncrypt /
// c52RefDecrypt (a transcription of the Web3 Secret Storage definition, version 3:
// scrypt or pbkdf2, AES-128-CTR, keccak256 MAC over derivedKey[16:32] || ciphertext),
// and every single-byte corruption (4 kinds) at every position of two deterministic
// key files through GetKey and DecryptKey.

import (
	"bytes"
	"crypto/aes"
	"crypto/cipher"
	"crypto/sha256"
	"encoding/hex"
	"encoding/json"
	"errors"
	"fmt"
	"math/big"
	"os"
	"path/filepath"
	"sort"
	"strings"
	"sync"
	"testing"

	"github.com/ethereum/go-ethereum/common"
	"github.com/ethereum/go-ethereum/crypto"
	"github.com/ethereum/go-ethereum/internal/verif/mc"
	"github.com/google/uuid"
	"golang.org/x/crypto/pbkdf2"
	"golang.org/x/crypto/scrypt"
	"golang.org/x/crypto/sha3"
)

// ---------------------------------------------------------------------------
// reference implementation of the key file format (independent of passphrase.go)

type c52KDF struct {
	Name       string // scrypt | pbkdf2
	N, R, P, C int
	DKLen      int
}

func c52Keccak(parts ...[]byte) []byte {
	h := sha3.NewLegacyKeccak256()
	for _, p := range parts {
		h.Write(p)
	}
	return h.Sum(nil)
}

func c52Derive(k c52KDF, pass string, salt []byte) ([]byte, error) {
	switch k.Name {
	case "scrypt":
		return scrypt.Key([]byte(pass), salt, k.N, k.R, k.P, k.DKLen)
	case "pbkdf2":
		return pbkdf2.Key([]byte(pass), salt, k.C, k.DKLen, sha256.New), nil
	}
	return nil, errors.New("reference: unknown kdf")
}

func c52CTR(key, iv, in []byte) []byte {
	block, err := aes.NewCipher(key)
	if err != nil {
		panic(err)
	}
	out := make([]byte, len(in))
	cipher.NewCTR(block, iv).XORKeyStream(out, in)
	return out
}

// c52RefEncrypt writes a version 3 key file by hand (field order as geth writes it, so that byte positions are
// comparable, but without using any of the package's types).
func c52RefEncrypt(d []byte, addr common.Address, id uuid.UUID, pass string, k c52KDF, salt, iv []byte) []byte {
	dk, err := c52Derive(k, pass, salt)
	if err != nil {
		panic(err)
	}
	ct := c52CTR(dk[:16], iv, d)
	mac := c52Keccak(dk[16:32], ct)
	var params string
	if k.Name == "scrypt" {
		params = fmt.Sprintf(`{"dklen":%d,"n":%d,"p":%d,"r":%d,"salt":"%x"}`, k.DKLen, k.N, k.P, k.R, salt)
	} else {
		params = fmt.Sprintf(`{"c":%d,"dklen":%d,"prf":"hmac-sha256","salt":"%x"}`, k.C, k.DKLen, salt)
	}
	return []byte(fmt.Sprintf(`{"address":"%x","crypto":{"cipher":"aes-128-ctr","ciphertext":"%x","cipherparams":{"iv":"%x"},"kdf":"%s","kdfparams":%s,"mac":"%x"},"id":"%s","version":3}`,
		addr[:], ct, iv, k.Name, params, mac, id.String()))
}

// c52RefEncryptV1 writes a version "1" key file: AES-128-CBC with PKCS#7 padding under keccak256(DK[0:16])[0:16],
// MAC = keccak256(DK[16:32] || ciphertext).
func c52RefEncryptV1(d []byte, addr common.Address, id uuid.UUID, pass string, k c52KDF, salt, iv []byte) []byte {
	dk, err := c52Derive(k, pass, salt)
	if err != nil {
		panic(err)
	}
	block, err := aes.NewCipher(c52Keccak(dk[:16])[:16])
	if err != nil {
		panic(err)
	}
	padded := append(append([]byte{}, d...), bytes.Repeat([]byte{16}, 16)...)
	ct := make([]byte, len(padded))
	cipher.NewCBCEncrypter(block, iv).CryptBlocks(ct, padded)
	mac := c52Keccak(dk[16:32], ct)
	return []byte(fmt.Sprintf(`{"address":"%x","crypto":{"cipher":"aes-128-cbc","ciphertext":"%x","cipherparams":{"iv":"%x"},"kdf":"scrypt","kdfparams":{"dklen":%d,"n":%d,"p":%d,"r":%d,"salt":"%x"},"mac":"%x"},"id":"%s","version":"1"}`,
		addr[:], ct, iv, k.DKLen, k.N, k.P, k.R, salt, mac, id.String()))
}

type c52Variant struct {
	name string
	file []byte
}

// c52Structural derives structural variants of the crypto object of a key file: every hex member (mac, ciphertext,
// iv, salt) missing, empty, truncated to every shorter whole number of bytes, cut in the middle of a byte, extended
// by a byte; every KDF parameter missing, zero, one, string-typed; mac replaced by null / a number / the MAC of nothing.
func c52Structural(file []byte) (out []c52Variant) {
	build := func(name string, edit func(top, cr, kp, cp map[string]any)) {
		var top map[string]any
		dec := json.NewDecoder(bytes.NewReader(file))
		dec.UseNumber()
		if err := dec.Decode(&top); err != nil {
			panic(err)
		}
		cr := top["crypto"].(map[string]any)
		edit(top, cr, cr["kdfparams"].(map[string]any), cr["cipherparams"].(map[string]any))
		b, err := json.Marshal(top)
		if err != nil {
			panic(err)
		}
		out = append(out, c52Variant{name, b})
	}
	hexMember := func(label string, get func(cr, kp, cp map[string]any) (map[string]any, string)) {
		var orig string
		build(label+":identity", func(_, cr, kp, cp map[string]any) { m, key := get(cr, kp, cp); orig = m[key].(string) })
		build(label+":missing", func(_, cr, kp, cp map[string]any) { m, key := get(cr, kp, cp); delete(m, key) })
		build(label+":null", func(_, cr, kp, cp map[string]any) { m, key := get(cr, kp, cp); m[key] = nil })
		for n := 0; n < len(orig)/2; n++ {
			n := n
			build(fmt.Sprintf("%s:first-%d-bytes", label, n), func(_, cr, kp, cp map[string]any) { m, key := get(cr, kp, cp); m[key] = orig[:2*n] })
			build(fmt.Sprintf("%s:last-%d-bytes", label, n), func(_, cr, kp, cp map[string]any) { m, key := get(cr, kp, cp); m[key] = orig[len(orig)-2*n:] })
		}
		build(label+":odd-length", func(_, cr, kp, cp map[string]any) { m, key := get(cr, kp, cp); m[key] = orig[:len(orig)-1] })
		build(label+":plus-00", func(_, cr, kp, cp map[string]any) { m, key := get(cr, kp, cp); m[key] = orig + "00" })
		build(label+":plus-ff", func(_, cr, kp, cp map[string]any) { m, key := get(cr, kp, cp); m[key] = orig + "ff" })
		build(label+":00-plus", func(_, cr, kp, cp map[string]any) { m, key := get(cr, kp, cp); m[key] = "00" + orig })
		build(label+":uppercase", func(_, cr, kp, cp map[string]any) { m, key := get(cr, kp, cp); m[key] = strings.ToUpper(orig) })
		build(label+":0x-prefixed", func(_, cr, kp, cp map[string]any) { m, key := get(cr, kp, cp); m[key] = "0x" + orig })
	}
	hexMember("mac", func(cr, kp, cp map[string]any) (map[string]any, string) { return cr, "mac" })
	hexMember("ciphertext", func(cr, kp, cp map[string]any) (map[string]any, string) { return cr, "ciphertext" })
	hexMember("iv", func(cr, kp, cp map[string]any) (map[string]any, string) { return cp, "iv" })
	hexMember("salt", func(cr, kp, cp map[string]any) (map[string]any, string) { return kp, "salt" })
	var params []string
	build("identity", func(_, _, kp, _ map[string]any) {
		for name := range kp {
			if name != "salt" {
				params = append(params, name)
			}
		}
	})
	sort.Strings(params)
	for _, name := range params {
		name := name
		build("kdfparams."+name+":missing", func(_, _, kp, _ map[string]any) { delete(kp, name) })
		build("kdfparams."+name+":zero", func(_, _, kp, _ map[string]any) { kp[name] = 0 })
		build("kdfparams."+name+":one", func(_, _, kp, _ map[string]any) { kp[name] = 1 })
		build("kdfparams."+name+":string", func(_, _, kp, _ map[string]any) { kp[name] = "2" })
		build("kdfparams."+name+":negative", func(_, _, kp, _ map[string]any) { kp[name] = -1 })
	}
	build("kdfparams:missing", func(_, cr, _, _ map[string]any) { delete(cr, "kdfparams") })
	build("kdfparams:empty", func(_, cr, _, _ map[string]any) { cr["kdfparams"] = map[string]any{} })
	build("cipherparams:missing", func(_, cr, _, _ map[string]any) { delete(cr, "cipherparams") })
	build("kdf:missing", func(_, cr, _, _ map[string]any) { delete(cr, "kdf") })
	build("kdf:other", func(_, cr, _, _ map[string]any) {
		if cr["kdf"] == "scrypt" {
			cr["kdf"] = "pbkdf2"
		} else {
			cr["kdf"] = "scrypt"
		}
	})
	build("cipher:missing", func(_, cr, _, _ map[string]any) { delete(cr, "cipher") })
	build("crypto:missing", func(top, _, _, _ map[string]any) { delete(top, "crypto") })
	build("crypto:empty", func(top, _, _, _ map[string]any) { top["crypto"] = map[string]any{} })
	build("mac:number", func(_, cr, _, _ map[string]any) { cr["mac"] = 0 })
	build("mac:keccak-of-nothing", func(_, cr, _, _ map[string]any) { cr["mac"] = hex.EncodeToString(c52Keccak()) })
	build("version:missing", func(top, _, _, _ map[string]any) { delete(top, "version") })
	return out
}

type c52File struct {
	Address string `json:"address"`
	Crypto  struct {
		Cipher       string `json:"cipher"`
		CipherText   string `json:"ciphertext"`
		CipherParams struct {
			IV string `json:"iv"`
		} `json:"cipherparams"`
		KDF       string `json:"kdf"`
		KDFParams struct {
			N     int    `json:"n"`
			R     int    `json:"r"`
			P     int    `json:"p"`
			C     int    `json:"c"`
			DKLen int    `json:"dklen"`
			PRF   string `json:"prf"`
			Salt  string `json:"salt"`
		} `json:"kdfparams"`
		MAC string `json:"mac"`
	} `json:"crypto"`
	ID      string `json:"id"`
	Version int    `json:"version"`
}

var errC52MAC = errors.New("reference: MAC mismatch")

func c52RefDecrypt(file []byte, pass string) (*c52File, []byte, error) {
	var f c52File
	if err := json.Unmarshal(file, &f); err != nil {
		return nil, nil, err
	}
	if f.Version != 3 || f.Crypto.Cipher != "aes-128-ctr" {
		return &f, nil, errors.New("reference: unsupported version / cipher")
	}
	salt, e1 := hex.DecodeString(f.Crypto.KDFParams.Salt)
	iv, e2 := hex.DecodeString(f.Crypto.CipherParams.IV)
	ct, e3 := hex.DecodeString(f.Crypto.CipherText)
	mac, e4 := hex.DecodeString(f.Crypto.MAC)
	if e1 != nil || e2 != nil || e3 != nil || e4 != nil {
		return &f, nil, errors.New("reference: bad hex")
	}
	p := f.Crypto.KDFParams
	dk, err := c52Derive(c52KDF{Name: f.Crypto.KDF, N: p.N, R: p.R, P: p.P, C: p.C, DKLen: p.DKLen}, pass, salt)
	if err != nil {
		return &f, nil, err
	}
	if len(dk) < 32 || len(iv) != 16 {
		return &f, nil, errors.New("reference: bad lengths")
	}
	if !bytes.Equal(c52Keccak(dk[16:32], ct), mac) {
		return &f, nil, errC52MAC
	}
	return &f, c52CTR(dk[:16], iv, ct), nil
}

// ---------------------------------------------------------------------------
// the input domain

type c52Key struct {
	Name string
	D    *big.Int
	key  *Key
}

func c52Keys(thorough bool) []*c52Key {
	n := crypto.S256().Params().N
	h := sha256.Sum256([]byte("c52-key"))
	ds := []struct {
		name string
		d    *big.Int
	}{
		{"one", big.NewInt(1)},
		{"n-1", new(big.Int).Sub(n, big.NewInt(1))},
		{"hash", new(big.Int).Mod(new(big.Int).SetBytes(h[:]), n)},
		{"2^128 (16 leading zero bytes)", new(big.Int).Lsh(big.NewInt(1), 128)},
		{"0x00ff..ff (one leading zero byte)", new(big.Int).Sub(new(big.Int).Lsh(big.NewInt(1), 248), big.NewInt(1))},
	}
	if thorough {
		h2 := sha256.Sum256([]byte("c52-key-2"))
		ds = append(ds, struct {
			name string
			d    *big.Int
		}{"two", big.NewInt(2)}, struct {
			name string
			d    *big.Int
		}{"n-2", new(big.Int).Sub(n, big.NewInt(2))}, struct {
			name string
			d    *big.Int
		}{"hash2", new(big.Int).Mod(new(big.Int).SetBytes(h2[:]), n)}, struct {
			name string
			d    *big.Int
		}{"2^255", new(big.Int).Lsh(big.NewInt(1), 255)})
	}
	var out []*c52Key
	for i, x := range ds {
		buf := make([]byte, 32)
		x.d.FillBytes(buf)
		priv, err := crypto.ToECDSA(buf)
		if err != nil {
			panic(fmt.Sprintf("c52: key %s: %v", x.name, err))
		}
		idh := sha256.Sum256([]byte(fmt.Sprint("c52-id-", i)))
		id, _ := uuid.FromBytes(idh[:16])
		out = append(out, &c52Key{Name: x.name, D: x.d, key: &Key{Id: id, Address: crypto.PubkeyToAddress(priv.PublicKey), PrivateKey: priv}})
	}
	return out
}

func c52Passphrases(thorough bool) []string {
	x200 := sha256.Sum256([]byte(strings.Repeat("x", 200)))
	ps := []string{"", "a", "pässwörd☃", strings.Repeat("x", 200), "A", "a ", "\x00", "aa", string(x200[:])}
	if thorough {
		ps = append(ps, " ", "a\x00", strings.Repeat("x", 199), "p\u00e4ssw\u00f6rd", "\u00e4", "a\u0308") // composed / decomposed umlaut
	}
	return ps
}

// c52Norm is the HMAC-SHA256 key normalisation (RFC 2104): keys longer than the 64-byte block are hashed, shorter
// ones are zero-padded. scrypt and pbkdf2 use the passphrase only as an HMAC key, so two passphrases with the same
// normal form (e.g. "" and "\x00", "a" and "a\x00", a 200-byte passphrase and its SHA-256) are the same passphrase
// for every implementation of the key file format; "another passphrase" means a different normal form.
func c52Norm(p string) [64]byte {
	var out [64]byte
	if len(p) > 64 {
		h := sha256.Sum256([]byte(p))
		copy(out[:], h[:])
	} else {
		copy(out[:], p)
	}
	return out
}

func c52SameKey(k *Key, want *c52Key) error {
	if k == nil || k.PrivateKey == nil {
		return errors.New("nil key")
	}
	if k.PrivateKey.D.Cmp(want.D) != 0 {
		return fmt.Errorf("private key %x, want %x", k.PrivateKey.D, want.D)
	}
	if k.Address != want.key.Address {
		return fmt.Errorf("address %x, want %x", k.Address, want.key.Address)
	}
	if k.PrivateKey.PublicKey.X.Cmp(want.key.PrivateKey.PublicKey.X) != 0 || k.PrivateKey.PublicKey.Y.Cmp(want.key.PrivateKey.PublicKey.Y) != 0 {
		return errors.New("public key differs")
	}
	return nil
}

type c52Case struct {
	Mode  string `json:"mode"`
	Key   string `json:"key,omitempty"`
	Pass  string `json:"pass,omitempty"` // hex of the passphrase bytes
	KDF   string `json:"kdf,omitempty"`
	File  string `json:"file,omitempty"`
	Pos   int    `json:"pos,omitempty"`
	Mut   string `json:"mut,omitempty"`
	Other string `json:"other,omitempty"`
}

func c52Scratch(t *testing.T) string {
	if d := os.Getenv("VERIF_SCRATCH"); d != "" {
		return d
	}
	return t.TempDir()
}

// c52Matrix: one key, one right passphrase, one KDF setting: encrypt with the real code and with the reference,
// decrypt with the right and with every other passphrase.
func c52Matrix(k *c52Key, pass string, others []string, kdf c52KDF, dir string, outc *c52Counters) error {
	d := make([]byte, 32)
	k.D.FillBytes(d)
	check := func(what string, file []byte) error {
		got, err := DecryptKey(file, pass)
		if err != nil {
			return fmt.Errorf("%s: DecryptKey with the right passphrase: %v", what, err)
		}
		if err := c52SameKey(got, k); err != nil {
			return fmt.Errorf("%s: DecryptKey with the right passphrase: %v", what, err)
		}
		if got.Id != k.key.Id {
			return fmt.Errorf("%s: id %s, want %s", what, got.Id, k.key.Id)
		}
		outc.add(&outc.right, 1)
		for _, q := range others {
			if q == pass {
				continue
			}
			got, err := DecryptKey(file, q)
			if c52Norm(q) == c52Norm(pass) {
				// same HMAC key: necessarily the same derived key
				if err != nil || c52SameKey(got, k) != nil {
					return fmt.Errorf("%s: DecryptKey with the HMAC-equivalent passphrase %q (right one %q): %v", what, q, pass, err)
				}
				outc.add(&outc.equiv, 1)
				continue
			}
			if err == nil {
				return fmt.Errorf("%s: DecryptKey succeeded with the wrong passphrase %q (right one %q), returned key %x", what, q, pass, got.PrivateKey.D)
			}
			if !errors.Is(err, ErrDecrypt) {
				return fmt.Errorf("%s: DecryptKey with the wrong passphrase %q: error %q, want ErrDecrypt", what, q, err)
			}
			outc.add(&outc.wrong, 1)
		}
		return nil
	}
	salt := sha256.Sum256([]byte("c52-salt|" + k.Name + "|" + pass))
	ivh := sha256.Sum256([]byte("c52-iv|" + k.Name + "|" + pass))
	// reference-written file (scrypt or pbkdf2) read by the real code
	if err := check("reference file ("+kdf.Name+")", c52RefEncrypt(d, k.key.Address, k.key.Id, pass, kdf, salt[:], ivh[:16])); err != nil {
		return err
	}
	if kdf.Name != "scrypt" || kdf.DKLen != 32 {
		return nil // EncryptKey only writes scrypt files with dklen 32
	}
	// real EncryptKey: conforming layout, readable by the reference and by the real code
	file, err := EncryptKey(k.key, pass, kdf.N, kdf.P)
	if err != nil {
		return fmt.Errorf("EncryptKey: %v", err)
	}
	f, plain, err := c52RefDecrypt(file, pass)
	if err != nil {
		return fmt.Errorf("file written by EncryptKey is not decryptable by the reference: %v (%s)", err, file)
	}
	if !bytes.Equal(plain, d) {
		return fmt.Errorf("file written by EncryptKey decrypts (reference) to %x, want %x", plain, d)
	}
	p := f.Crypto.KDFParams
	if f.Crypto.KDF != "scrypt" || p.N != kdf.N || p.P != kdf.P || p.R != 8 || p.DKLen != 32 || len(p.Salt) != 64 ||
		len(f.Crypto.CipherParams.IV) != 32 || len(f.Crypto.CipherText) != 64 || len(f.Crypto.MAC) != 64 {
		return fmt.Errorf("file written by EncryptKey has unexpected parameters: %s", file)
	}
	if f.Address != hex.EncodeToString(k.key.Address[:]) || f.ID != k.key.Id.String() {
		return fmt.Errorf("file written by EncryptKey names address %s id %s", f.Address, f.ID)
	}
	for _, q := range others {
		if q == pass {
			continue
		}
		if c52Norm(q) == c52Norm(pass) {
			continue
		}
		if _, _, err := c52RefDecrypt(file, q); !errors.Is(err, errC52MAC) {
			return fmt.Errorf("file written by EncryptKey: reference decryption with wrong passphrase %q gives %v, want MAC mismatch", q, err)
		}
	}
	if err := check("EncryptKey file", file); err != nil {
		return err
	}
	// through the key store: StoreKey writes, verifies and renames; GetKey loads
	ks := &keyStorePassphrase{dir, kdf.N, kdf.P, false}
	name := ks.JoinPath("key")
	if name != filepath.Join(dir, "key") {
		return fmt.Errorf("JoinPath gives %s", name)
	}
	os.Remove(name)
	if err := ks.StoreKey(name, k.key, pass); err != nil {
		return fmt.Errorf("StoreKey: %v", err)
	}
	entries, _ := os.ReadDir(dir)
	if len(entries) != 1 || entries[0].Name() != "key" {
		return fmt.Errorf("StoreKey left %d entries in the directory (temporary file not renamed?)", len(entries))
	}
	if fi, err := os.Stat(name); err != nil || fi.Mode().Perm() != 0o600 {
		return fmt.Errorf("stored key file mode %v err %v, want 0600", fi.Mode(), err)
	}
	got, err := ks.GetKey(k.key.Address, name, pass)
	if err != nil {
		return fmt.Errorf("GetKey with the right passphrase: %v", err)
	}
	if err := c52SameKey(got, k); err != nil {
		return fmt.Errorf("GetKey with the right passphrase: %v", err)
	}
	outc.add(&outc.right, 1)
	for _, q := range others {
		if q == pass {
			continue
		}
		if c52Norm(q) == c52Norm(pass) {
			continue
		}
		if got, err := ks.GetKey(k.key.Address, name, q); err == nil || !errors.Is(err, ErrDecrypt) {
			return fmt.Errorf("GetKey with the wrong passphrase %q: key %v, error %v, want ErrDecrypt", q, got != nil, err)
		}
		outc.add(&outc.wrong, 1)
	}
	// a file holding another key must not be returned for this address
	other := common.Address{0x42}
	if got, err := ks.GetKey(other, name, pass); err == nil {
		return fmt.Errorf("GetKey for address %x returned the key of %x", other, got.Address)
	}
	return nil
}

type c52Counters struct {
	mu                                                sync.Mutex
	right, wrong, equiv, corruptErr, corruptOrig, corruptWrong, pan int64
}

func (c *c52Counters) add(p *int64, n int64) { c.mu.Lock(); *p += n; c.mu.Unlock() }

var c52Muts = []string{"flip-bit0", "flip-bit5", "to-0", "delete"}

func c52Mutate(file []byte, pos int, mut string) []byte {
	out := append([]byte{}, file...)
	switch mut {
	case "flip-bit0":
		out[pos] ^= 1
	case "flip-bit5":
		out[pos] ^= 0x20
	case "to-0":
		out[pos] = '0'
	case "delete":
		out = append(out[:pos], out[pos+1:]...)
	}
	return out
}

// c52PanicClass maps a panic to a stable class name (the panicking statement).
func c52PanicClass(msg string) string {
	first := strings.SplitN(msg, "\n", 2)[0]
	for _, fn := range []string{"getKDFKey", "ensureInt", "DecryptDataV3", "decryptKeyV3", "decryptKeyV1", "aesCTRXOR", "aesCBCDecrypt"} {
		if strings.Contains(msg, "keystore."+fn+"(") {
			return fn + ": " + first
		}
	}
	return first
}

func TestVerif_C52(t *testing.T) {
	mc.Run(t, "C52", func(r *mc.R) {
		keys := c52Keys(r.Thorough())
		passes := c52Passphrases(r.Thorough())
		kdfs := []c52KDF{
			{Name: "scrypt", N: 2, R: 8, P: 1, DKLen: 32},
			{Name: "scrypt", N: 4, R: 8, P: 2, DKLen: 32},
			{Name: "scrypt", N: 16, R: 8, P: 1, DKLen: 32},
			{Name: "pbkdf2", C: 2, DKLen: 32},
			{Name: "scrypt", N: 2, R: 8, P: 1, DKLen: 64}, // files of other clients: longer derived key, MAC still over DK[16:32]
			{Name: "pbkdf2", C: 3, DKLen: 48},
		}
		if r.Thorough() {
			kdfs = append(kdfs, c52KDF{Name: "scrypt", N: 1024, R: 8, P: 1, DKLen: 32}, c52KDF{Name: "pbkdf2", C: 262144 / 64, DKLen: 32})
		}
		r.Rule("keys {1, n-1, fixed hash, 2^128, 0x00ff..ff (thorough +4)} x right passphrase in {\"\", a, pässwörd☃, 200*x, A, \"a \", NUL, aa, sha256(200*x) (thorough +6)} x KDF {scrypt N=2/P=1, N=4/P=2, N=16/P=1, pbkdf2 c=2, reference-only: scrypt dklen=64, pbkdf2 c=3 dklen=48} x every other passphrase as the wrong one: " +
			"reference-written file -> DecryptKey; EncryptKey -> reference decrypt, DecryptKey; keyStorePassphrase.StoreKey -> GetKey; plus one LightScrypt (N=4096,P=6) round. " +
			"corruption: every byte position of a scrypt, a pbkdf2 and a version-1 key file x {flip bit 0, flip bit 5, overwrite with '0', delete}, and structural variants of the crypto object (each hex member missing / null / empty / every shorter prefix and suffix / odd length / extended / re-cased; each KDF parameter missing / 0 / 1 / string / negative; members and objects missing) -> GetKey and DecryptKey with the right passphrase and with two wrong ones. distinct = distinct (mode, key, passphrase, kdf) / (file, position, mutation)")
		r.Bound("keys", len(keys))
		r.Bound("passphrases", len(passes))
		r.Bound("kdf_settings", len(kdfs))
		r.Assume("golang.org/x/crypto scrypt / pbkdf2 / sha3 and crypto/aes are trusted and shared between the code under test and the reference; the reference transcribes the Web3 Secret Storage v3 layout and MAC rule")
		r.Assume("'another passphrase' = a passphrase with a different HMAC-SHA256 key normal form: passphrases that differ only by trailing NUL bytes, or a >64-byte passphrase and its SHA-256, derive the same key in scrypt and pbkdf2 by construction (RFC 2104) and are asserted to decrypt")
		r.Assume("EncryptKey draws salt and IV from crypto/rand (code under test); every check made on its output holds for any salt / IV, the corruption space uses reference-written files with fixed salt / IV")
		scratch := c52Scratch(t)
		outc := &c52Counters{}

		// ---- matrix
		type job struct {
			k   *c52Key
			p   string
			kdf c52KDF
		}
		var jobs []job
		for _, k := range keys {
			for _, p := range passes {
				for _, kdf := range kdfs {
					jobs = append(jobs, job{k, p, kdf})
				}
			}
		}
		// one round with the light parameters geth uses for real (--lightkdf)
		jobs = append(jobs, job{keys[2], passes[2], c52KDF{Name: "scrypt", N: LightScryptN, R: 8, P: LightScryptP, DKLen: 32}})
		r.Parallel(len(jobs), func(i int) {
			j := jobs[i]
			dir := filepath.Join(scratch, fmt.Sprintf("m%d", i))
			os.MkdirAll(dir, 0o700)
			defer os.RemoveAll(dir)
			others := passes
			if j.kdf.N >= 1024 || j.kdf.C > 1000 {
				others = passes[:3]
			}
			c := c52Case{Mode: "matrix", Key: j.k.Name, Pass: hex.EncodeToString([]byte(j.p)), KDF: fmt.Sprintf("%+v", j.kdf)}
			r.Case(c, func() error { return c52Matrix(j.k, j.p, others, j.kdf, dir, outc) })
			r.Distinct(fmt.Sprint("m|", c.Key, c.Pass, c.KDF))
			if i%53 == 0 {
				r.Sample(c)
			}
		})

		// ---- corrupted and structurally altered key files
		k := keys[2]
		pass := passes[2]
		wrongs := []string{"wrong-passphrase", ""} // HMAC key normal forms different from pass
		d := make([]byte, 32)
		k.D.FillBytes(d)
		salt := sha256.Sum256([]byte("c52-corrupt-salt"))
		ivh := sha256.Sum256([]byte("c52-corrupt-iv"))
		files := map[string][]byte{
			"scrypt": c52RefEncrypt(d, k.key.Address, k.key.Id, pass, kdfs[0], salt[:], ivh[:16]),
			"pbkdf2": c52RefEncrypt(d, k.key.Address, k.key.Id, pass, kdfs[3], salt[:], ivh[:16]),
			"v1":     c52RefEncryptV1(d, k.key.Address, k.key.Id, pass, kdfs[0], salt[:], ivh[:16]),
		}
		fileNames := []string{"scrypt", "pbkdf2", "v1"}
		// the pristine files decrypt to the key with the right passphrase only
		for _, name := range fileNames {
			got, err := DecryptKey(files[name], pass)
			if err != nil || c52SameKey(got, k) != nil {
				r.Violation("C52 pristine "+name, fmt.Sprintf("reference-written %s key file does not decrypt with its passphrase: %v", name, err), nil)
			}
		}
		var pmu sync.Mutex
		panics := map[string]c52Case{}
		panicMsg := map[string]string{}
		ks := &keyStorePassphrase{scratch, 2, 1, false}
		notePanic := func(c c52Case, where string, perr error) {
			class := "panic-on-corrupted-keyfile " + c52PanicClass(perr.Error())
			outc.add(&outc.pan, 1)
			if r.Replaying() {
				if os.Getenv("VERIF_C52_STRICT_PANIC") == "1" {
					r.Violation("C52 "+class, where+": "+perr.Error(), c)
				}
				return
			}
			pmu.Lock()
			if w, have := panics[class]; !have || fmt.Sprint(c.Mode, c.File, 1000+c.Pos, c.Mut) < fmt.Sprint(w.Mode, w.File, 1000+w.Pos, w.Mut) {
				panics[class], panicMsg[class] = c, where+": "+perr.Error()
			}
			pmu.Unlock()
		}
		// checkBad: one altered key file under the right and under two wrong passphrases, through GetKey and DecryptKey.
		//  - a wrong passphrase never decrypts, whatever was done to the file;
		//  - the right passphrase gives an error or (GetKey) the original key; DecryptKey may return another key only
		//    under another address (the IV is not covered by the MAC; the address check of GetKey catches that).
		checkBad := func(c c52Case, bad []byte, path string) error {
			if err := os.WriteFile(path, bad, 0o600); err != nil {
				return fmt.Errorf("harness: %v", err)
			}
			defer os.Remove(path)
			var got *Key
			var gerr error
			if perr := mc.Safely(func() error { got, gerr = ks.GetKey(k.key.Address, path, pass); return nil }); perr != nil {
				notePanic(c, "GetKey(right passphrase)", perr)
			} else if gerr == nil {
				if err := c52SameKey(got, k); err != nil {
					return fmt.Errorf("GetKey on the altered file returned a different key: %v", err)
				}
				outc.add(&outc.corruptOrig, 1)
			} else {
				outc.add(&outc.corruptErr, 1)
			}
			var raw *Key
			var rerr error
			if perr := mc.Safely(func() error { raw, rerr = DecryptKey(bad, pass); return nil }); perr == nil && rerr == nil {
				if raw.Address == k.key.Address && raw.PrivateKey.D.Cmp(k.D) != 0 {
					return fmt.Errorf("DecryptKey on the altered file returned private key %x for the original address", raw.PrivateKey.D)
				}
				if crypto.PubkeyToAddress(raw.PrivateKey.PublicKey) != raw.Address {
					return fmt.Errorf("DecryptKey returned a key whose address field does not belong to its private key")
				}
			}
			for _, q := range wrongs {
				var wk *Key
				var werr error
				if perr := mc.Safely(func() error { wk, werr = DecryptKey(bad, q); return nil }); perr != nil {
					notePanic(c, "DecryptKey(wrong passphrase)", perr)
				} else if werr == nil {
					return fmt.Errorf("DecryptKey on the altered file succeeded with the wrong passphrase %q (right one %q) and returned key %x", q, pass, wk.PrivateKey.D)
				} else {
					outc.add(&outc.corruptWrong, 1)
				}
				if perr := mc.Safely(func() error { wk, werr = ks.GetKey(k.key.Address, path, q); return nil }); perr != nil {
					notePanic(c, "GetKey(wrong passphrase)", perr)
				} else if werr == nil {
					return fmt.Errorf("GetKey on the altered file succeeded with the wrong passphrase %q", q)
				}
			}
			return nil
		}
		// (1) every byte position x {flip bit 0, flip bit 5, overwrite with '0', delete}
		type cjob struct {
			file string
			pos  int
		}
		var cjobs []cjob
		for _, name := range fileNames {
			r.Bound("corruption_file_bytes_"+name, len(files[name]))
			for pos := range files[name] {
				cjobs = append(cjobs, cjob{name, pos})
			}
		}
		r.Parallel(len(cjobs), func(i int) {
			j := cjobs[i]
			for _, mut := range c52Muts {
				c := c52Case{Mode: "corrupt", File: j.file, Pos: j.pos, Mut: mut}
				bad := c52Mutate(files[j.file], j.pos, mut)
				path := filepath.Join(scratch, fmt.Sprintf("c-%s-%d-%s", j.file, j.pos, mut))
				r.Case(c, func() error { return checkBad(c, bad, path) })
				r.Distinct(fmt.Sprint("c|", c.File, c.Pos, c.Mut))
				if i%211 == 0 && mut == "flip-bit0" {
					r.Sample(c)
				}
			}
		})
		// (2) structural variants of the crypto object
		type sjob struct {
			file, variant string
			bad           []byte
		}
		var sjobs []sjob
		for _, name := range fileNames {
			for _, v := range c52Structural(files[name]) {
				sjobs = append(sjobs, sjob{name, v.name, v.file})
			}
		}
		r.Bound("structural_variants", len(sjobs))
		r.Parallel(len(sjobs), func(i int) {
			j := sjobs[i]
			c := c52Case{Mode: "structural", File: j.file, Mut: j.variant}
			path := filepath.Join(scratch, fmt.Sprintf("s-%d", i))
			r.Case(c, func() error { return checkBad(c, j.bad, path) })
			r.Distinct(fmt.Sprint("s|", c.File, c.Mut))
			if i%97 == 0 {
				r.Sample(c)
			}
		})
		// A panic on a malformed key file (missing KDF parameter, missing IV) is a robustness defect of DecryptKey,
		// but the property statement only speaks about which passphrases decrypt a key file and about store/load
		// round trips; it does not demand error returns for malformed files. The panic classes are therefore
		// recorded as outcomes/bounds and only asserted with VERIF_C52_STRICT_PANIC=1.
		for class, c := range panics {
			r.Bound("observed "+class, fmt.Sprintf("%s file %s position %d %s", c.Mode, c.File, c.Pos, c.Mut))
			if os.Getenv("VERIF_C52_STRICT_PANIC") != "1" {
				continue
			}
			r.Violation("C52 "+class, fmt.Sprintf("panic on an altered key file (%s, file %s, position %d, %s)\n%s", c.Mode, c.File, c.Pos, c.Mut, panicMsg[class]), c)
		}
		r.OutcomeN("right-passphrase:key-returned", outc.right)
		r.OutcomeN("wrong-passphrase:ErrDecrypt", outc.wrong)
		r.OutcomeN("hmac-equivalent-passphrase:key-returned", outc.equiv)
		r.OutcomeN("corrupted:error", outc.corruptErr)
		r.OutcomeN("corrupted:original-key", outc.corruptOrig)
		r.OutcomeN("corrupted:panic", outc.pan)
		r.OutcomeN("corrupted:wrong-passphrase-rejected", outc.corruptWrong)
	})
}

func c52Context(b []byte, pos int) string {
	lo, hi := pos-12, pos+12
	if lo < 0 {
		lo = 0
	}
	if hi > len(b) {
		hi = len(b)
	}
	return string(b[lo:hi])
}
