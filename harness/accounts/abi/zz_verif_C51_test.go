//go:build verif

package abi

// C51 — contract ABI encoding round-trips and follows the ABI specification.
//
// Exhaustive enumeration of a bounded universe of ABI types (closure of 11 base
// types under T[], T[2], (T,U) to depth 2, all integer widths, 1-2 top-level
// arguments) x boundary values, and of all short word sequences as decoder
// input. Oracles:
//   - c51Enc: reference encoder written from the Solidity "Formal Specification
//     of the Encoding" (enc / head / tail), on harness-internal values;
//   - c51Dec: reference decoder written from the same definitions, in a strict
//     variant (only clean padding accepted) and a lenient variant (padding
//     ignored); the real decoder must lie between the two:
//        strict accepts  =>  Unpack accepts, same value
//        Unpack accepts  =>  lenient accepts, same value
//   - round trips through the real Pack / Unpack.

import (
	"bytes"
	"encoding/binary"
	"encoding/json"
	"encoding/hex"
	"errors"
	"fmt"
	"math/big"
	"reflect"
	"strconv"
	"strings"
	"sync"
	"sync/atomic"
	"testing"

	"github.com/ethereum/go-ethereum/common"
	"github.com/ethereum/go-ethereum/internal/verif/mc"
)

// ---------------------------------------------------------------------------
// harness-internal types and values

type c51T struct {
	K      string // uint int bool address fixed bytes string slice array tuple
	N      int    // bits (uint/int), bytes (fixed), length (array)
	Elem   *c51T
	Fields []*c51T
}

func (t *c51T) String() string {
	switch t.K {
	case "uint", "int":
		return t.K + strconv.Itoa(t.N)
	case "fixed":
		return "bytes" + strconv.Itoa(t.N)
	case "slice":
		return t.Elem.String() + "[]"
	case "array":
		return t.Elem.String() + "[" + strconv.Itoa(t.N) + "]"
	case "tuple":
		var s []string
		for _, f := range t.Fields {
			s = append(s, f.String())
		}
		return "(" + strings.Join(s, ",") + ")"
	}
	return t.K
}

// marshaling returns the JSON-ABI type string and components of the type.
func (t *c51T) marshaling() (string, []ArgumentMarshaling) {
	switch t.K {
	case "slice":
		s, c := t.Elem.marshaling()
		return s + "[]", c
	case "array":
		s, c := t.Elem.marshaling()
		return s + "[" + strconv.Itoa(t.N) + "]", c
	case "tuple":
		var comps []ArgumentMarshaling
		for i, f := range t.Fields {
			s, c := f.marshaling()
			comps = append(comps, ArgumentMarshaling{Name: "f" + strconv.Itoa(i), Type: s, Components: c})
		}
		return "tuple", comps
	}
	return t.String(), nil
}

func (t *c51T) abiType() Type {
	s, c := t.marshaling()
	typ, err := NewType(s, "", c)
	if err != nil {
		panic(fmt.Sprintf("c51: NewType(%s): %v", t, err))
	}
	return typ
}

// dynamic: bytes, string, T[], T[k] for dynamic T, tuples with a dynamic member (spec, "Types" section).
func (t *c51T) dynamic() bool {
	switch t.K {
	case "bytes", "string", "slice":
		return true
	case "array":
		return t.Elem.dynamic()
	case "tuple":
		for _, f := range t.Fields {
			if f.dynamic() {
				return true
			}
		}
	}
	return false
}

// headSize is the number of bytes the type occupies in the head of its enclosing tuple.
func (t *c51T) headSize() int {
	if t.dynamic() {
		return 32
	}
	switch t.K {
	case "array":
		return t.N * t.Elem.headSize()
	case "tuple":
		n := 0
		for _, f := range t.Fields {
			n += f.headSize()
		}
		return n
	}
	return 32
}

func (t *c51T) members(n int) []*c51T { // member types when seen as a tuple
	if t.K == "tuple" {
		return t.Fields
	}
	out := make([]*c51T, n)
	for i := range out {
		out[i] = t.Elem
	}
	return out
}

type c51V struct {
	I *big.Int // uint, int, bool (0/1), address (as uint160)
	B []byte   // fixed, bytes, string
	E []*c51V  // slice, array, tuple
}

func (v *c51V) canon(t *c51T) string {
	switch t.K {
	case "uint", "int", "bool", "address":
		return v.I.String()
	case "fixed", "bytes", "string":
		return "x" + hex.EncodeToString(v.B)
	}
	ms := t.members(len(v.E))
	var s []string
	for i, e := range v.E {
		s = append(s, e.canon(ms[i]))
	}
	return "[" + strings.Join(s, " ") + "]"
}

func c51CanonSeq(ts []*c51T, vs []*c51V) string {
	var s []string
	for i := range ts {
		s = append(s, vs[i].canon(ts[i]))
	}
	return strings.Join(s, " ; ")
}

// ---------------------------------------------------------------------------
// reference encoder (Solidity ABI spec, "Formal Specification of the Encoding")

var c51Two256 = new(big.Int).Lsh(big.NewInt(1), 256)

func c51Word(x *big.Int) []byte {
	if x.Sign() < 0 {
		x = new(big.Int).Add(c51Two256, x) // two's complement
	}
	out := make([]byte, 32)
	x.FillBytes(out)
	return out
}

func c51PadRight(b []byte) []byte {
	out := append([]byte{}, b...)
	for len(out)%32 != 0 {
		out = append(out, 0)
	}
	return out
}

func c51Enc(t *c51T, v *c51V) []byte {
	switch t.K {
	case "uint", "int", "bool", "address":
		return c51Word(v.I)
	case "fixed":
		return c51PadRight(v.B)
	case "bytes", "string":
		return append(c51Word(big.NewInt(int64(len(v.B)))), c51PadRight(v.B)...)
	case "slice":
		return append(c51Word(big.NewInt(int64(len(v.E)))), c51EncSeq(t.members(len(v.E)), v.E)...)
	default: // array, tuple
		return c51EncSeq(t.members(len(v.E)), v.E)
	}
}

// c51EncSeq is enc((X1..Xk)) = head(X1)..head(Xk) tail(X1)..tail(Xk).
func c51EncSeq(ts []*c51T, vs []*c51V) []byte {
	headLen := 0
	for _, t := range ts {
		headLen += t.headSize()
	}
	var head, tail []byte
	for i, t := range ts {
		e := c51Enc(t, vs[i])
		if t.dynamic() {
			head = append(head, c51Word(big.NewInt(int64(headLen+len(tail))))...)
			tail = append(tail, e...)
		} else {
			head = append(head, e...)
		}
	}
	return append(head, tail...)
}

// ---------------------------------------------------------------------------
// reference decoder. buf is always the frame of the enclosing tuple / array body up to the end of the input;
// offsets are relative to its start.

var errC51 = errors.New("reference decoder: malformed")

func c51ReadWord(buf []byte, pos int) (*big.Int, []byte, error) {
	if pos < 0 || pos+32 > len(buf) {
		return nil, nil, errC51
	}
	return new(big.Int).SetBytes(buf[pos : pos+32]), buf[pos : pos+32], nil
}

// c51ReadLen reads an offset / length word: it must not exceed the frame length. With low64 only the low 64 bits
// are looked at (used solely to classify a known laxity of the real decoder, never as an oracle).
func c51ReadLen(buf []byte, pos int, low64 bool) (int, error) {
	if pos < 0 || pos+32 > len(buf) {
		return 0, errC51
	}
	if !low64 && !c51AllZero(buf[pos:pos+24]) {
		return 0, errC51
	}
	x := binary.BigEndian.Uint64(buf[pos+24 : pos+32])
	if x > uint64(len(buf)) {
		return 0, errC51
	}
	return int(x), nil
}

const (
	c51Lenient = iota // value padding ignored
	c51Strict         // value padding must be clean
	c51Low64          // lenient, and offsets of dynamic fixed-size arrays are reduced modulo 2^64
)

func c51AllZero(b []byte) bool {
	for _, x := range b {
		if x != 0 {
			return false
		}
	}
	return true
}

func c51DecSeq(ts []*c51T, buf []byte, mode int) ([]*c51V, error) {
	pos := 0
	out := make([]*c51V, len(ts))
	for i, t := range ts {
		var err error
		if t.dynamic() {
			off, e := c51ReadLen(buf, pos, mode == c51Low64 && t.K == "array") // offset must point into the frame
			if e != nil {
				return nil, e
			}
			out[i], err = c51Dec(t, buf[off:], mode)
		} else {
			out[i], err = c51Dec(t, buf[pos:], mode)
		}
		if err != nil {
			return nil, err
		}
		pos += t.headSize()
	}
	return out, nil
}

// c51Dec decodes a value whose encoding starts at buf[0].
func c51Dec(t *c51T, buf []byte, mode int) (*c51V, error) {
	strict := mode == c51Strict
	switch t.K {
	case "uint", "int", "bool", "address", "fixed":
		x, w, err := c51ReadWord(buf, 0)
		if err != nil {
			return nil, err
		}
		switch t.K {
		case "uint":
			if strict && x.BitLen() > t.N {
				return nil, errC51
			}
			return &c51V{I: x}, nil
		case "int":
			if x.Bit(255) == 1 {
				x.Sub(x, c51Two256)
			}
			if strict {
				lim := new(big.Int).Lsh(big.NewInt(1), uint(t.N-1))
				if x.Cmp(lim) >= 0 || x.Cmp(new(big.Int).Neg(lim)) < 0 {
					return nil, errC51
				}
			}
			return &c51V{I: x}, nil
		case "bool":
			if strict && x.BitLen() > 1 {
				return nil, errC51
			}
			return &c51V{I: big.NewInt(int64(x.Sign()))}, nil
		case "address":
			if strict && !c51AllZero(w[:12]) {
				return nil, errC51
			}
			return &c51V{I: new(big.Int).SetBytes(w[12:])}, nil
		default:
			if strict && !c51AllZero(w[t.N:]) {
				return nil, errC51
			}
			return &c51V{B: append([]byte{}, w[:t.N]...)}, nil
		}
	case "bytes", "string":
		n, err := c51ReadLen(buf, 0, false)
		if err != nil || 32+n > len(buf) {
			return nil, errC51
		}
		if strict {
			padded := (n + 31) / 32 * 32
			if 32+padded > len(buf) || !c51AllZero(buf[32+n:32+padded]) {
				return nil, errC51
			}
		}
		return &c51V{B: append([]byte{}, buf[32:32+n]...)}, nil
	case "slice":
		n, err := c51ReadLen(buf, 0, false)
		if err != nil {
			return nil, err
		}
		es, err := c51DecSeq(t.members(n), buf[32:], mode)
		if err != nil {
			return nil, err
		}
		return &c51V{E: es}, nil
	case "array":
		es, err := c51DecSeq(t.members(t.N), buf, mode)
		if err != nil {
			return nil, err
		}
		return &c51V{E: es}, nil
	default:
		es, err := c51DecSeq(t.Fields, buf, mode)
		if err != nil {
			return nil, err
		}
		return &c51V{E: es}, nil
	}
}

// ---------------------------------------------------------------------------
// conversion between harness values and the Go values of the real package

func c51ToGo(t *c51T, at Type, v *c51V) reflect.Value {
	rt := at.GetType()
	switch t.K {
	case "uint", "int":
		if rt.Kind() == reflect.Pointer {
			return reflect.ValueOf(new(big.Int).Set(v.I))
		}
		x := reflect.New(rt).Elem()
		if t.K == "uint" {
			x.SetUint(v.I.Uint64())
		} else {
			x.SetInt(v.I.Int64())
		}
		return x
	case "bool":
		return reflect.ValueOf(v.I.Sign() != 0)
	case "address":
		var a common.Address
		v.I.FillBytes(a[:])
		return reflect.ValueOf(a)
	case "fixed":
		x := reflect.New(rt).Elem()
		reflect.Copy(x, reflect.ValueOf(v.B))
		return x
	case "bytes":
		return reflect.ValueOf(append([]byte{}, v.B...))
	case "string":
		return reflect.ValueOf(string(v.B))
	case "slice":
		x := reflect.MakeSlice(rt, len(v.E), len(v.E))
		for i, e := range v.E {
			x.Index(i).Set(c51ToGo(t.Elem, *at.Elem, e))
		}
		return x
	case "array":
		x := reflect.New(rt).Elem()
		for i, e := range v.E {
			x.Index(i).Set(c51ToGo(t.Elem, *at.Elem, e))
		}
		return x
	default:
		x := reflect.New(at.TupleType).Elem()
		for i, e := range v.E {
			x.Field(i).Set(c51ToGo(t.Fields[i], *at.TupleElems[i], e))
		}
		return x
	}
}

// c51CanonGo renders a Go value returned by Unpack in the same canonical text as c51V.canon.
func c51CanonGo(t *c51T, rv reflect.Value) (string, error) {
	for rv.Kind() == reflect.Interface {
		rv = rv.Elem()
	}
	bad := func() (string, error) { return "", fmt.Errorf("unexpected Go type %s for ABI type %s", rv.Type(), t) }
	switch t.K {
	case "uint", "int":
		switch rv.Kind() {
		case reflect.Pointer:
			b, ok := rv.Interface().(*big.Int)
			if !ok || b == nil {
				return bad()
			}
			return b.String(), nil
		case reflect.Uint8, reflect.Uint16, reflect.Uint32, reflect.Uint64:
			if t.K != "uint" || rv.Type().Bits() != t.N {
				return bad()
			}
			return strconv.FormatUint(rv.Uint(), 10), nil
		case reflect.Int8, reflect.Int16, reflect.Int32, reflect.Int64:
			if t.K != "int" || rv.Type().Bits() != t.N {
				return bad()
			}
			return strconv.FormatInt(rv.Int(), 10), nil
		}
		return bad()
	case "bool":
		if rv.Kind() != reflect.Bool {
			return bad()
		}
		if rv.Bool() {
			return "1", nil
		}
		return "0", nil
	case "address":
		a, ok := rv.Interface().(common.Address)
		if !ok {
			return bad()
		}
		return new(big.Int).SetBytes(a[:]).String(), nil
	case "fixed":
		if rv.Kind() != reflect.Array || rv.Len() != t.N {
			return bad()
		}
		b := make([]byte, rv.Len())
		reflect.Copy(reflect.ValueOf(b), rv)
		return "x" + hex.EncodeToString(b), nil
	case "bytes":
		b, ok := rv.Interface().([]byte)
		if !ok {
			return bad()
		}
		return "x" + hex.EncodeToString(b), nil
	case "string":
		if rv.Kind() != reflect.String {
			return bad()
		}
		return "x" + hex.EncodeToString([]byte(rv.String())), nil
	case "slice", "array":
		if (t.K == "slice" && rv.Kind() != reflect.Slice) || (t.K == "array" && (rv.Kind() != reflect.Array || rv.Len() != t.N)) {
			return bad()
		}
		var s []string
		for i := 0; i < rv.Len(); i++ {
			c, err := c51CanonGo(t.Elem, rv.Index(i))
			if err != nil {
				return "", err
			}
			s = append(s, c)
		}
		return "[" + strings.Join(s, " ") + "]", nil
	default:
		if rv.Kind() != reflect.Struct || rv.NumField() != len(t.Fields) {
			return bad()
		}
		var s []string
		for i, f := range t.Fields {
			c, err := c51CanonGo(f, rv.Field(i))
			if err != nil {
				return "", err
			}
			s = append(s, c)
		}
		return "[" + strings.Join(s, " ") + "]", nil
	}
}

func c51CanonGoSeq(ts []*c51T, vals []any) (string, error) {
	if len(vals) != len(ts) {
		return "", fmt.Errorf("Unpack returned %d values for %d arguments", len(vals), len(ts))
	}
	var s []string
	for i, t := range ts {
		c, err := c51CanonGo(t, reflect.ValueOf(vals[i]))
		if err != nil {
			return "", err
		}
		s = append(s, c)
	}
	return strings.Join(s, " ; "), nil
}

// ---------------------------------------------------------------------------
// the bounded universe

func c51Pow2(n uint) *big.Int { return new(big.Int).Lsh(big.NewInt(1), n) }

func c51Pattern(n int, first byte) []byte {
	b := make([]byte, n)
	for i := range b {
		b[i] = first + byte(i)
	}
	if n > 0 {
		b[n-1] = 0xff
	}
	return b
}

// c51BaseVals: boundary values, most important first (nested positions use only the first three).
func c51BaseVals(t *c51T) []*c51V {
	bi := func(xs ...*big.Int) (out []*c51V) {
		for _, x := range xs {
			out = append(out, &c51V{I: x})
		}
		return
	}
	by := func(xs ...[]byte) (out []*c51V) {
		for _, x := range xs {
			out = append(out, &c51V{B: x})
		}
		return
	}
	switch t.K {
	case "uint":
		max := new(big.Int).Sub(c51Pow2(uint(t.N)), big.NewInt(1))
		return bi(max, big.NewInt(0), big.NewInt(1), c51Pow2(uint(t.N-1)), new(big.Int).Sub(c51Pow2(uint(t.N-1)), big.NewInt(1)))
	case "int":
		min := new(big.Int).Neg(c51Pow2(uint(t.N - 1)))
		max := new(big.Int).Sub(c51Pow2(uint(t.N-1)), big.NewInt(1))
		return bi(big.NewInt(-1), min, max, big.NewInt(0), big.NewInt(1))
	case "bool":
		return bi(big.NewInt(1), big.NewInt(0))
	case "address":
		return bi(new(big.Int).Sub(c51Pow2(160), big.NewInt(1)), big.NewInt(1), big.NewInt(0), c51Pow2(159))
	case "fixed":
		ff := bytes.Repeat([]byte{0xff}, t.N)
		zero := make([]byte, t.N)
		first := make([]byte, t.N)
		first[0] = 1
		last := make([]byte, t.N)
		last[t.N-1] = 1
		if t.N == 1 {
			return by(ff, zero, first)
		}
		return by(ff, first, last, zero)
	case "bytes":
		return by(c51Pattern(33, 0x80), []byte{}, c51Pattern(32, 1), c51Pattern(31, 0), c51Pattern(1, 0))
	case "string":
		return by(c51Pattern(33, 'a'), []byte{}, c51Pattern(32, 'A'), c51Pattern(31, '0'), []byte("z"))
	}
	panic("c51: not a base type " + t.String())
}

func c51Stride(vs []*c51V, max int) []*c51V {
	if len(vs) <= max {
		return vs
	}
	out := make([]*c51V, 0, max)
	for i := 0; i < max; i++ {
		out = append(out, vs[i*(len(vs)-1)/(max-1)])
	}
	return out
}

func c51Product(sets [][]*c51V) []*c51V {
	out := []*c51V{{E: nil}}
	for _, set := range sets {
		var next []*c51V
		for _, pre := range out {
			for _, v := range set {
				next = append(next, &c51V{E: append(append([]*c51V{}, pre.E...), v)})
			}
		}
		out = next
	}
	return out
}

// c51Vals enumerates the values of a type: full boundary sets and all combinations at the top two levels,
// three values per leaf and at most four combinations per aggregate below.
func c51Vals(t *c51T, lvl int) []*c51V {
	cap := 4
	if lvl == 0 {
		cap = 1 << 20
	}
	switch t.K {
	case "slice":
		ev := c51Vals(t.Elem, lvl+1)
		out := []*c51V{{E: []*c51V{}}}
		lens := []int{1, 2}
		if lvl > 0 {
			lens = []int{2}
		}
		for _, n := range lens {
			sets := make([][]*c51V, n)
			for i := range sets {
				sets[i] = ev
			}
			out = append(out, c51Product(sets)...)
		}
		return c51Stride(out, cap)
	case "array":
		sets := make([][]*c51V, t.N)
		for i := range sets {
			sets[i] = c51Vals(t.Elem, lvl+1)
		}
		return c51Stride(c51Product(sets), cap)
	case "tuple":
		sets := make([][]*c51V, len(t.Fields))
		for i, f := range t.Fields {
			sets[i] = c51Vals(f, lvl+1)
		}
		return c51Stride(c51Product(sets), cap)
	}
	vs := c51BaseVals(t)
	if lvl > 1 && len(vs) > 3 {
		vs = vs[:3]
	}
	return vs
}

func c51Slice(e *c51T) *c51T        { return &c51T{K: "slice", Elem: e} }
func c51Array(e *c51T, n int) *c51T { return &c51T{K: "array", Elem: e, N: n} }
func c51Tuple(fs ...*c51T) *c51T    { return &c51T{K: "tuple", Fields: fs} }

type c51Universe struct {
	single [][]*c51T // argument lists with one type
	pairs  [][]*c51T // argument lists with two types
	nest   []*c51T   // representatives used for depth-2 tuples and pairs
}

func c51Build() *c51Universe {
	u8, u64, u256 := &c51T{K: "uint", N: 8}, &c51T{K: "uint", N: 64}, &c51T{K: "uint", N: 256}
	i8, i256 := &c51T{K: "int", N: 8}, &c51T{K: "int", N: 256}
	boolT, addr := &c51T{K: "bool"}, &c51T{K: "address"}
	b1, b32 := &c51T{K: "fixed", N: 1}, &c51T{K: "fixed", N: 32}
	bts, str := &c51T{K: "bytes"}, &c51T{K: "string"}
	l0 := []*c51T{u8, u64, u256, i8, i256, boolT, addr, b1, b32, bts, str}
	var l1 []*c51T
	for _, t := range l0 {
		l1 = append(l1, c51Slice(t), c51Array(t, 2))
	}
	for _, a := range l0 {
		for _, b := range l0 {
			l1 = append(l1, c51Tuple(a, b))
		}
	}
	nest := []*c51T{u8, i256, b1, bts, str,
		c51Slice(u8), c51Array(i8, 2), c51Slice(bts), c51Array(str, 2),
		c51Tuple(i8, b32), c51Tuple(u64, str), c51Tuple(bts, u8)}
	var all []*c51T
	all = append(all, l0...)
	// every integer width (depth 0 only; 8, 64 and 256 are already in l0)
	for n := 8; n <= 256; n += 8 {
		if n != 8 && n != 64 && n != 256 {
			all = append(all, &c51T{K: "uint", N: n})
		}
		if n != 8 && n != 256 {
			all = append(all, &c51T{K: "int", N: n})
		}
	}
	for _, n := range []int{2, 3, 20, 31} {
		all = append(all, &c51T{K: "fixed", N: n})
	}
	all = append(all, l1...)
	for _, t := range l1 {
		all = append(all, c51Slice(t), c51Array(t, 2))
	}
	for i, a := range nest {
		for j, b := range nest {
			if i >= 5 || j >= 5 { // at least one aggregate, otherwise it is already in l1 (or an equivalent)
				all = append(all, c51Tuple(a, b))
			}
		}
	}
	all = append(all,
		c51Array(u8, 3), c51Array(str, 3), c51Array(c51Slice(u8), 3),
		c51Tuple(u8, str, c51Array(i8, 2), bts), c51Tuple(str, c51Tuple(u8, bts), boolT), c51Tuple(c51Slice(str), u8, c51Array(b1, 2)),
		c51Slice(c51Slice(c51Slice(u8))), c51Slice(c51Tuple(u8, c51Slice(str))))
	// multi-word static aggregates of depth 2 in positions where their size matters: followed by another member /
	// argument, and as elements of slices and arrays (depth 3)
	wide := []*c51T{c51Array(c51Tuple(i8, b32), 2), c51Array(c51Array(u8, 2), 2), c51Tuple(c51Array(u8, 2), b1),
		c51Tuple(c51Tuple(u8, b1), i8), c51Array(u8, 3)}
	u := &c51Universe{nest: nest}
	for _, x := range wide {
		all = append(all, c51Tuple(x, str), c51Tuple(x, u8, bts), c51Tuple(str, x, i8))
		if x.String() != "uint8[3]" {
			all = append(all, c51Slice(x), c51Array(x, 2))
		}
		u.pairs = append(u.pairs, []*c51T{x, str}, []*c51T{x, i8}, []*c51T{bts, x})
	}
	seen := map[string]bool{}
	for _, t := range all {
		if seen[t.String()] {
			panic("c51: duplicate type " + t.String())
		}
		seen[t.String()] = true
		u.single = append(u.single, []*c51T{t})
	}
	for _, a := range nest {
		for _, b := range nest {
			u.pairs = append(u.pairs, []*c51T{a, b})
		}
	}
	return u
}

func c51Args(ts []*c51T) (Arguments, []Type) {
	var args Arguments
	var ats []Type
	for i, t := range ts {
		at := t.abiType()
		args = append(args, Argument{Name: "a" + strconv.Itoa(i), Type: at})
		ats = append(ats, at)
	}
	return args, ats
}

func c51TypeList(ts []*c51T) string {
	var s []string
	for _, t := range ts {
		s = append(s, t.String())
	}
	return strings.Join(s, ";")
}

// ---------------------------------------------------------------------------
// checks

type c51Case struct {
	Mode  string `json:"mode"`
	Types string `json:"types"`
	Value string `json:"value,omitempty"`
	Data  string `json:"data,omitempty"` // hex
}
// c51Finding is a violation of a recognised class; the class is part of the violation key.
type c51Finding struct {
	class string
	msg   string
}

func (f *c51Finding) Error() string { return f.class + ": " + f.msg }

// c51CheckDecode runs the real decoder on data and applies the sandwich oracle. want != "" additionally pins the value.
// It returns the outcome class.
func c51CheckDecode(ts []*c51T, args Arguments, data []byte, want string, mustSucceed bool) (string, error) {
	vals, err := args.Unpack(data)
	if len(data) == 0 {
		// Arguments.Unpack documents an explicit error for empty input when arguments are expected
		if err == nil {
			return "", fmt.Errorf("Unpack of empty input succeeded")
		}
		return "error", nil
	}
	lenient, lerr := c51DecSeq(ts, data, c51Lenient)
	if err != nil {
		if lerr == nil { // strict accepts only what lenient accepts
			if strict, serr := c51DecSeq(ts, data, c51Strict); serr == nil {
				return "", fmt.Errorf("Unpack rejects (%v) a well-formed, cleanly padded encoding of %s", err, c51CanonSeq(ts, strict))
			}
		}
		if mustSucceed {
			return "", fmt.Errorf("Unpack failed: %v", err)
		}
		return "error", nil
	}
	got, cerr := c51CanonGoSeq(ts, vals)
	if cerr != nil {
		return "", cerr
	}
	if lerr != nil {
		if low, e := c51DecSeq(ts, data, c51Low64); e == nil && c51CanonSeq(ts, low) == got {
			return "", &c51Finding{"array-offset-high-bits-ignored", fmt.Sprintf("Unpack accepts an offset word >= 2^64 for a fixed-size array of dynamic elements by looking only at its low 64 bits "+
				"(unpack.go toGoType, case ArrayTy: binary.BigEndian.Uint64(returnOutput[len(returnOutput)-8:])); decoded %s", got)}
		}
		return "", &c51Finding{"accepts-malformed-structure", "Unpack accepts input whose offsets / lengths point outside the data per the ABI spec; decoded " + got}
	}
	if ref := c51CanonSeq(ts, lenient); ref != got {
		return "", fmt.Errorf("Unpack decoded %s, the ABI spec reading of the input is %s", got, ref)
	}
	if want != "" && got != want {
		return "", fmt.Errorf("Unpack decoded %s, want %s", got, want)
	}
	// decoded values re-encode canonically and decode again to themselves
	re, perr := args.Pack(vals...)
	if perr != nil {
		return "", fmt.Errorf("Pack of successfully unpacked values %s fails: %v", got, perr)
	}
	if ref := c51EncSeq(ts, lenient); !bytes.Equal(re, ref) {
		return "", fmt.Errorf("re-encoding of decoded %s is %x, spec encoding is %x", got, re, ref)
	}
	again, uerr := args.Unpack(re)
	if uerr != nil {
		return "", fmt.Errorf("Unpack(Pack(decoded %s)) fails: %v", got, uerr)
	}
	if g2, e2 := c51CanonGoSeq(ts, again); e2 != nil || g2 != got {
		return "", fmt.Errorf("Unpack(Pack(v)) = %s (%v) != v = %s", g2, e2, got)
	}
	if bytes.HasPrefix(data, re) {
		return "ok-canonical-prefix", nil
	}
	return "ok-noncanonical", nil
}

func c51CheckEncode(ts []*c51T, args Arguments, ats []Type, vs []*c51V, allTruncations bool) error {
	want := c51CanonSeq(ts, vs)
	goVals := make([]any, len(ts))
	for i, t := range ts {
		goVals[i] = c51ToGo(t, ats[i], vs[i]).Interface()
	}
	enc, err := args.Pack(goVals...)
	if err != nil {
		return fmt.Errorf("Pack failed: %v", err)
	}
	ref := c51EncSeq(ts, vs)
	if !bytes.Equal(enc, ref) {
		return fmt.Errorf("Pack = %x, ABI spec encoding = %x", enc, ref)
	}
	// self-check of the reference pair
	if back, err := c51DecSeq(ts, ref, c51Strict); err != nil || c51CanonSeq(ts, back) != want {
		return fmt.Errorf("harness: reference decoder does not invert the reference encoder")
	}
	if cls, err := c51CheckDecode(ts, args, enc, want, true); err != nil {
		return err
	} else if cls != "ok-canonical-prefix" {
		return fmt.Errorf("Unpack(Pack(v)) classified %s", cls)
	}
	// canonical encoding followed by junk decodes to the same value
	junk := append(append([]byte{}, enc...), 0xde, 0xad, 0xbe, 0xef, 0x01)
	if _, err := c51CheckDecode(ts, args, junk, want, true); err != nil {
		return fmt.Errorf("with 5 trailing junk bytes: %v", err)
	}
	junk = append(append([]byte{}, enc...), bytes.Repeat([]byte{0xff}, 32)...)
	if _, err := c51CheckDecode(ts, args, junk, want, true); err != nil {
		return fmt.Errorf("with a trailing junk word: %v", err)
	}
	// truncations: an error or the same value, never another value
	for n := 0; n < len(enc); n++ {
		if !allTruncations && n%32 != 0 && n%32 != 1 && n%32 != 31 {
			continue
		}
		vals, err := args.Unpack(enc[:n])
		if err != nil {
			continue
		}
		got, cerr := c51CanonGoSeq(ts, vals)
		if cerr != nil || got != want {
			return fmt.Errorf("encoding truncated to %d of %d bytes decodes to %s (%v), original value %s", n, len(enc), got, cerr, want)
		}
	}
	return nil
}

func c51Alphabet(n int) [][]byte {
	words := []*big.Int{
		big.NewInt(0), big.NewInt(1), big.NewInt(0x20), big.NewInt(0x40), big.NewInt(0x60),
		new(big.Int).Sub(c51Two256, big.NewInt(1)),      // 2^256-1 (int -1, uint max, huge offset)
		new(big.Int).Add(c51Pow2(64), big.NewInt(0x20)), // offset/length whose low 64 bits look harmless
		big.NewInt(2),                                   // length 2, dirty bool
		c51Pow2(255),                                    // int256 min
		big.NewInt(0x80),                                // int8 out of range, offset 4 words
	}
	var out [][]byte
	for _, w := range words[:n] {
		out = append(out, c51Word(w))
	}
	return out
}

// c51DecodeRep selects the argument lists used for the word-sequence decoding space: tuples of two base types only
// over a reduced base set (the layout of a tuple does not depend on which one-word static type a member is).
func c51DecodeRep(t *c51T) bool {
	switch t.K {
	case "slice", "array":
		return c51DecodeRep(t.Elem)
	case "tuple":
		allBase := true
		for _, f := range t.Fields {
			if f.K == "slice" || f.K == "array" || f.K == "tuple" {
				allBase = false
			}
		}
		if !allBase {
			return true
		}
		for _, f := range t.Fields {
			s := f.String()
			if s != "uint8" && s != "int256" && s != "bool" && s != "bytes1" && s != "bytes" && s != "string" {
				return false
			}
		}
	}
	return true
}

func TestVerif_C51(t *testing.T) {
	mc.Run(t, "C51", func(r *mc.R) {
		u := c51Build()
		maxWords := mc.Pick(r, 4, 5)
		alphabet := c51Alphabet(mc.Pick(r, 7, 9))
		variants := mc.Pick(r, 2, 3)
		r.Rule("types: 11 base types (uint8/64/256, int8/256, bool, address, bytes1/32, bytes, string) closed under T[], T[2], (T,U) to depth 1 completely and to depth 2 for T[] / T[2] over all depth-1 types and (T,U) over 12 representatives, " +
			"plus every integer width 8..256, bytes2/3/20/31, 3-element arrays, 3/4-field tuples, T[][][], 5 multi-word static aggregates of depth 2 as non-last members / arguments and as slice / array elements; argument lists of one type (all) or two types (12x12 representatives + 15). " +
			"encode: per argument list every combination of boundary values (full sets at the top two levels, 3 per leaf / 4 per aggregate below; slices of length 0,1,2): Pack == spec encoder, Unpack(Pack(v)) == v, +junk, truncations. " +
			"decode: per argument list (tuples of two base types only over 6 representative base types) every sequence of <= maxWords words over the word alphabet, each also minus its last byte (thorough: and plus one byte): " +
			"strict-reference-accepts => Unpack accepts => lenient-reference-accepts with equal values, re-encoding canonical and stable. " +
			"distinct = distinct (type list, value) pairs encoded or produced by the real decoder")
		r.Bound("types_single", len(u.single))
		r.Bound("types_pairs", len(u.pairs))
		r.Bound("decode_max_words", maxWords)
		r.Bound("decode_word_alphabet", len(alphabet))
		r.Bound("decode_variants_per_sequence", variants)
		r.Assume("reference encoder/decoder c51Enc/c51Dec are transcriptions of the Solidity ABI specification (formal encoding section); value padding that the spec's strict mode rejects may be accepted or rejected by the real decoder (sandwich oracle), structure (offsets, lengths) may not be misread")
		r.Assume("Go values handed to Pack are of the exact Go types Type.GetType() prescribes and within the range of the ABI type")

		lists := append(append([][]*c51T{}, u.single...), u.pairs...)
		// replay: only the argument list of the replayed case
		var replay *c51Case
		if r.Replaying() {
			replay = new(c51Case)
			if json.Unmarshal(r.ReplayDescriptor(), replay) != nil {
				return
			}
		}
		var decodeLists int64
		// violations of a recognised class are reported once per class (smallest type list / input as witness), so that
		// a known finding occupies one slot of the bounded violation list and cannot mask other violations
		var fmu sync.Mutex
		witness := map[string]c51Case{}
		witnessMsg := map[string]string{}
		report := func(c c51Case, err error) {
			if f, ok := err.(*c51Finding); ok {
				if r.Replaying() {
					r.Violation("C51 "+f.class, f.msg+" [witness: types "+c.Types+" input "+c.Data+"]", c)
					return
				}
				fmu.Lock()
				if w, have := witness[f.class]; !have || len(c.Types)+len(c.Data) < len(w.Types)+len(w.Data) ||
					(len(c.Types)+len(c.Data) == len(w.Types)+len(w.Data) && c.Types+c.Data < w.Types+w.Data) {
					witness[f.class], witnessMsg[f.class] = c, f.msg
				}
				fmu.Unlock()
				return
			}
			b, _ := json.Marshal(c)
			r.Violation(string(b), err.Error(), c)
		}
		defer func() {
			for class, c := range witness {
				r.Violation("C51 "+class, witnessMsg[class]+" [witness: types "+c.Types+" input "+c.Data+"]", c)
			}
		}()
		r.Parallel(len(lists), func(li int) {
			ts := lists[li]
			tl := c51TypeList(ts)
			if replay != nil && replay.Types != tl {
				return
			}
			args, ats := c51Args(ts)
			var nEnc, nErr, nCanon, nNoncanon, nViol int64
			defer func() {
				r.OutcomeN("encode:ok", nEnc)
				r.OutcomeN("decode:error", nErr)
				r.OutcomeN("decode:ok-canonical-prefix", nCanon)
				r.OutcomeN("decode:ok-noncanonical", nNoncanon)
				r.OutcomeN("decode:violation", nViol)
			}()
			decodeOne := func(data []byte) {
				r.Eval(1)
				var cls string
				err := mc.Safely(func() (e error) { cls, e = c51CheckDecode(ts, args, data, "", false); return })
				switch {
				case err != nil:
					nViol++
					report(c51Case{Mode: "decode", Types: tl, Data: hex.EncodeToString(data)}, err)
				case cls == "error":
					nErr++
				default:
					if cls == "ok-canonical-prefix" {
						nCanon++
					} else {
						nNoncanon++
					}
					if vals, err := args.Unpack(data); err == nil {
						if cs, err := c51CanonGoSeq(ts, vals); err == nil {
							if r.DistinctHash(mc.Hash64("d|"+tl+"|"+cs)) && nCanon+nNoncanon < 3 && li%41 == 0 {
								r.Sample(c51Case{Mode: "decode", Types: tl, Data: hex.EncodeToString(data), Value: cs})
							}
						}
					}
				}
			}
			if replay != nil && replay.Mode == "decode" {
				if data, err := hex.DecodeString(replay.Data); err == nil {
					r.ReplayHit()
					decodeOne(data)
				}
				return
			}
			// ---- encode side
			var sets [][]*c51V
			for _, t := range ts {
				lvl := 0
				if len(ts) > 1 {
					lvl = 1
				}
				sets = append(sets, c51Vals(t, lvl))
			}
			for ci, combo := range c51Product(sets) {
				vs := combo.E
				c := c51Case{Mode: "encode", Types: tl, Value: c51CanonSeq(ts, vs)}
				r.Case(c, func() error { return c51CheckEncode(ts, args, ats, vs, len(ts) == 1 && li < 200) })
				r.DistinctHash(mc.Hash64("e|" + tl + "|" + c.Value))
				nEnc++
				if ci == 0 && li%97 == 0 {
					r.Sample(c)
				}
			}
			if replay != nil {
				return
			}
			// ---- decode side: all word sequences
			if len(ts) == 1 && !c51DecodeRep(ts[0]) {
				return
			}
			atomic.AddInt64(&decodeLists, 1)
			// a list of static types never looks beyond its head: longer sequences only repeat shorter ones
			limit := maxWords
			static, headWords := true, 0
			for _, t := range ts {
				static = static && !t.dynamic()
				headWords += t.headSize() / 32
			}
			if static && headWords+1 < limit {
				limit = headWords + 1
			}
			buf := make([]byte, 0, 32*maxWords+1)
			idx := make([]int, maxWords)
			for n := 1; n <= limit; n++ {
				if r.Expired() {
					return
				}
				for i := range idx[:n] {
					idx[i] = 0
				}
				for {
					buf = buf[:0]
					for _, w := range idx[:n] {
						buf = append(buf, alphabet[w]...)
					}
					decodeOne(buf)
					decodeOne(buf[:len(buf)-1])
					if variants > 2 {
						decodeOne(append(buf, 0x01))
					}
					k := n - 1
					for k >= 0 {
						idx[k]++
						if idx[k] < len(alphabet) {
							break
						}
						idx[k] = 0
						k--
					}
					if k < 0 {
						break
					}
				}
			}
		})
		r.Bound("decode_argument_lists", atomic.LoadInt64(&decodeLists))
	})
}
