//go:build verif

package eip4844

import (
	"fmt"
	"math/big"
	"os"
	"sort"
	"sync"
	"testing"

	"github.com/ethereum/go-ethereum/core/types"
	"github.com/ethereum/go-ethereum/internal/verif/mc"
	"github.com/ethereum/go-ethereum/params"
)

// ---------------------------------------------------------------------------
// Reference: EIP-4844 / EIP-7691 / EIP-7918 / EIP-7892 pseudo-code transcribed
// into math/big with literal constants. Nothing below calls the code under test
// or reads protocol constants from params.
//
//	GAS_PER_BLOB = 2**17, MIN_BASE_FEE_PER_BLOB_GAS = 1, BLOB_BASE_COST = 2**13

var (
	c35GasPerBlob   = big.NewInt(131072)
	c35BlobBaseCost = big.NewInt(8192)
)

const c35G = uint64(131072)

// c35Sched is one blob schedule entry (blobSchedule.target / max / baseFeeUpdateFraction).
type c35Sched struct {
	Name     string `json:"name"`
	Target   int    `json:"target"`
	Max      int    `json:"max"`
	Fraction uint64 `json:"fraction"`
}

// c35SpecTable: parameters of the finalised forks as published in the EIPs
// (EIP-4844, EIP-7691, EIP-7892 BPO1/BPO2 of the Fusaka schedule).
var c35SpecTable = []c35Sched{
	{"cancun", 3, 6, 3338477},
	{"prague", 6, 9, 5007716},
	{"bpo1", 10, 15, 8346193},
	{"bpo2", 14, 21, 11684671},
}

// fake_exponential of EIP-4844.
func c35RefFakeExp(factor, numerator, denominator *big.Int) *big.Int {
	i := big.NewInt(1)
	output := new(big.Int)
	accum := new(big.Int).Mul(factor, denominator)
	for accum.Sign() > 0 {
		output.Add(output, accum)
		// numerator_accum = (numerator_accum * numerator) // (denominator * i)
		accum.Mul(accum, numerator)
		accum.Quo(accum, new(big.Int).Mul(denominator, i))
		i.Add(i, big.NewInt(1))
	}
	return output.Quo(output, denominator)
}

// get_base_fee_per_blob_gas = fake_exponential(MIN_BASE_FEE_PER_BLOB_GAS, excess_blob_gas, BLOB_BASE_FEE_UPDATE_FRACTION)
func c35RefBlobFee(excess uint64, fraction uint64) *big.Int {
	return c35RefFakeExp(big.NewInt(1), new(big.Int).SetUint64(excess), new(big.Int).SetUint64(fraction))
}

var c35FeeCache sync.Map // "excess/fraction" -> *big.Int

func c35RefBlobFeeCached(excess, fraction uint64) *big.Int {
	k := [2]uint64{excess, fraction}
	if v, ok := c35FeeCache.Load(k); ok {
		return v.(*big.Int)
	}
	f := c35RefBlobFee(excess, fraction)
	c35FeeCache.Store(k, f)
	return f
}

// calc_excess_blob_gas. Pre-Osaka: EIP-4844 with the fork's target. Osaka:
// EIP-7918 (reserve price branch). Unbounded integers: the result is returned as
// a big.Int so that the caller can see whether it fits the header field.
func c35RefExcess(osaka bool, s c35Sched, parentExcess, parentUsed uint64, parentBaseFee *big.Int) *big.Int {
	pe := new(big.Int).SetUint64(parentExcess)
	pu := new(big.Int).SetUint64(parentUsed)
	target := new(big.Int).Mul(big.NewInt(int64(s.Target)), c35GasPerBlob)
	sum := new(big.Int).Add(pe, pu)
	if sum.Cmp(target) < 0 {
		return new(big.Int)
	}
	if osaka {
		// if BLOB_BASE_COST * parent.base_fee_per_gas > GAS_PER_BLOB * get_base_fee_per_blob_gas(parent):
		//     return parent.excess_blob_gas + parent.blob_gas_used * (max - target) // max
		lhs := new(big.Int).Mul(c35BlobBaseCost, parentBaseFee)
		rhs := new(big.Int).Mul(c35GasPerBlob, c35RefBlobFeeCached(parentExcess, s.Fraction))
		if lhs.Cmp(rhs) > 0 {
			sc := new(big.Int).Mul(pu, big.NewInt(int64(s.Max-s.Target)))
			sc.Quo(sc, big.NewInt(int64(s.Max)))
			return sc.Add(sc, pe)
		}
	}
	return sum.Sub(sum, target)
}

// ---------------------------------------------------------------------------
// schedule selection reference (EIP-7892: the entry of the latest activated fork
// that has one; forks in activation order cancun, prague, bpo1..bpo5).

func c35RefSelect(cfg *params.ChainConfig, time uint64) (c35Sched, bool) {
	if cfg.BlobScheduleConfig == nil || cfg.LondonBlock == nil {
		return c35Sched{}, false
	}
	s := cfg.BlobScheduleConfig
	forks := []struct {
		name string
		at   *uint64
		bc   *params.BlobConfig
	}{
		{"cancun", cfg.CancunTime, s.Cancun}, {"prague", cfg.PragueTime, s.Prague},
		{"bpo1", cfg.BPO1Time, s.BPO1}, {"bpo2", cfg.BPO2Time, s.BPO2}, {"bpo3", cfg.BPO3Time, s.BPO3},
		{"bpo4", cfg.BPO4Time, s.BPO4}, {"bpo5", cfg.BPO5Time, s.BPO5},
	}
	var out c35Sched
	found := false
	for _, f := range forks {
		if f.at != nil && *f.at <= time && f.bc != nil {
			out = c35Sched{f.name, f.bc.Target, f.bc.Max, f.bc.UpdateFraction}
			found = true
		}
	}
	return out, found
}

func c35U64(v uint64) *uint64 { return &v }

// c35Config builds a chain config in which schedule s is the active one at time
// 100, installed in slot `slot` (0 = cancun, 1 = prague, 2.. = bpo1..), with or
// without Osaka.
func c35Config(s c35Sched, slot int, osaka bool) *params.ChainConfig {
	cfg := *params.MergedTestChainConfig
	cfg.ShanghaiTime = c35U64(0)
	cfg.CancunTime, cfg.PragueTime, cfg.OsakaTime = nil, nil, nil
	cfg.BPO1Time, cfg.BPO2Time, cfg.BPO3Time, cfg.BPO4Time, cfg.BPO5Time = nil, nil, nil, nil, nil
	bc := &params.BlobConfig{Target: s.Target, Max: s.Max, UpdateFraction: s.Fraction}
	sc := &params.BlobScheduleConfig{}
	entries := []**params.BlobConfig{&sc.Cancun, &sc.Prague, &sc.BPO1, &sc.BPO2, &sc.BPO3, &sc.BPO4, &sc.BPO5}
	times := []**uint64{&cfg.CancunTime, &cfg.PragueTime, &cfg.BPO1Time, &cfg.BPO2Time, &cfg.BPO3Time, &cfg.BPO4Time, &cfg.BPO5Time}
	for i := 0; i <= slot; i++ {
		*times[i] = c35U64(uint64(10 * i))
		// earlier forks get a decoy entry that must not be selected
		*entries[i] = &params.BlobConfig{Target: 1, Max: 2, UpdateFraction: 1000003}
	}
	*entries[slot] = bc
	if osaka {
		// Osaka itself has no blob schedule entry; Prague is activated without an entry when the
		// schedule under test sits in the Cancun slot.
		if cfg.PragueTime == nil {
			cfg.PragueTime = c35U64(0)
		}
		cfg.OsakaTime = c35U64(0)
	}
	cfg.BlobScheduleConfig = sc
	return &cfg
}

func c35UniqU(in []uint64) []uint64 {
	sort.Slice(in, func(a, b int) bool { return in[a] < in[b] })
	out := in[:0]
	for i, v := range in {
		if i == 0 || v != in[i-1] {
			out = append(out, v)
		}
	}
	return out
}

// c35FeeSteps returns, for n = 1..steps, the smallest excess at which the
// reference blob fee reaches n+1 (binary search on the monotone reference).
func c35FeeSteps(fraction uint64, steps int) []uint64 {
	var out []uint64
	lo := uint64(0)
	for n := 1; n <= steps; n++ {
		want := big.NewInt(int64(n + 1))
		hi := lo + 1
		for c35RefBlobFeeCached(hi, fraction).Cmp(want) < 0 {
			hi *= 2
		}
		l := lo
		for l+1 < hi { // invariant: fee(l) < want <= fee(hi)
			m := l + (hi-l)/2
			if c35RefBlobFeeCached(m, fraction).Cmp(want) < 0 {
				l = m
			} else {
				hi = m
			}
		}
		out = append(out, hi)
		lo = hi
	}
	return out
}

type c35FeeCase struct {
	Part   string   `json:"part"`
	Sched  c35Sched `json:"sched"`
	Slot   int      `json:"slot"`
	Excess uint64   `json:"excess"`
}

type c35ExCase struct {
	Part    string   `json:"part"`
	Sched   c35Sched `json:"sched"`
	Slot    int      `json:"slot"`
	Osaka   bool     `json:"osaka"`
	Excess  uint64   `json:"parent_excess"`
	Used    uint64   `json:"parent_used"`
	BaseFee string   `json:"parent_base_fee"`
}

type c35SelCase struct {
	Part   string `json:"part"`
	Config string `json:"config"`
	Time   uint64 `json:"time"`
}

type c35FxCase struct {
	Part string `json:"part"`
	F    int64  `json:"factor"`
	N    int64  `json:"numerator"`
	D    int64  `json:"denominator"`
}

func TestVerif_C35(t *testing.T) {
	mc.Run(t, "C35", func(r *mc.R) {
		strictWrap := os.Getenv("VERIF_C35_STRICT_WRAP") == "1"
		r.Rule("[params] the blob schedule entries of every exported chain config == the published table for cancun/prague/bpo1/bpo2; " +
			"[select] every exported chain config x time in {0, each fork time -1/+0/+1, 2^64-1}: latestBlobConfig/MaxBlobsPerBlock/TargetBlobsPerBlock == latest activated fork with an entry; " +
			"[fakeexp] complete grid factor 0..12 x numerator 0..40 x denominator 1..12: fakeExponential == EIP-4844 fake_exponential, arguments unchanged; " +
			"[blobfee] every distinct schedule entry in params (installed in the cancun, prague and bpo slots of a synthetic config) x excess in {k*2^17 (k<=K), k*2^14 (k<=64), " +
			"2^j-1,2^j,2^j+1 (j<=J), +-1 around the first 24 points where the reference fee steps n->n+1}: CalcBlobFee == fake_exponential(1, excess, fraction), monotone in excess; " +
			"[excess] every schedule x {pre-Osaka, Osaka} x parent excess grid x parent blobGasUsed in {k*2^17: k in 0,1,target-1..target+1,max-1..max+1,32} + {1,2^17+1} x parent baseFee in " +
			"{0,1,16f-1,16f,16f+1 (f = reference blob fee, the EIP-7918 reserve-price boundary),1e9,2^256-1}: CalcExcessBlobGas == calc_excess_blob_gas in unbounded integers, " +
			"VerifyEIP4844Header accepts exactly that value and rejects +-1, rejects blobGasUsed > max, non-multiples and missing fields; " +
			"distinct = distinct (part, schedule, inputs) with outcome classes zero/classic/reserve")
		r.Assume("reference = EIP-4844/7691/7918 pseudo-code in math/big with literal constants 2^17, 2^13, 1; blob schedule = the entry selected per EIP-7892 for the header's timestamp")
		r.Assume("parent.excessBlobGas + parent.blobGasUsed < 2^64 (the header field is uint64; not reachable from a genesis below 2^63 within 2^43 blocks); the wrapping cases are counted in outcome excess_uint64_wrap_* and only asserted with VERIF_C35_STRICT_WRAP=1")
		r.Assume("Osaka / blob-fee domains are capped at excess <= 2^J because fake_exponential needs O(excess/fraction) big-integer iterations")
		r.Assume("parent post-London (baseFee present); header.Number == parent.Number+1 and a blob schedule is active (documented preconditions, the functions panic otherwise)")

		// ---------------- params table + schedule selection
		named := []struct {
			name string
			cfg  *params.ChainConfig
		}{
			{"mainnet", params.MainnetChainConfig}, {"holesky", params.HoleskyChainConfig}, {"sepolia", params.SepoliaChainConfig},
			{"hoodi", params.HoodiChainConfig}, {"allethash", params.AllEthashProtocolChanges}, {"alldev", params.AllDevChainProtocolChanges},
			{"allclique", params.AllCliqueProtocolChanges}, {"test", params.TestChainConfig}, {"mergedtest", params.MergedTestChainConfig},
			{"nonactivated", params.NonActivatedConfig},
		}
		schedSet := map[c35Sched]bool{}
		var scheds []c35Sched
		addSched := func(name string, bc *params.BlobConfig) {
			if bc == nil {
				return
			}
			s := c35Sched{name, bc.Target, bc.Max, bc.UpdateFraction}
			k := s
			k.Name = ""
			if !schedSet[k] {
				schedSet[k] = true
				scheds = append(scheds, s)
			}
		}
		addSched("cancun", params.DefaultCancunBlobConfig)
		addSched("prague", params.DefaultPragueBlobConfig)
		addSched("bpo1", params.DefaultBPO1BlobConfig)
		addSched("bpo2", params.DefaultBPO2BlobConfig)
		addSched("bpo3", params.DefaultBPO3BlobConfig)
		addSched("bpo4", params.DefaultBPO4BlobConfig)
		for _, nc := range named {
			s := nc.cfg.BlobScheduleConfig
			if s == nil {
				continue
			}
			entries := map[string]*params.BlobConfig{"cancun": s.Cancun, "prague": s.Prague, "bpo1": s.BPO1, "bpo2": s.BPO2, "bpo3": s.BPO3, "bpo4": s.BPO4, "bpo5": s.BPO5}
			for _, sp := range c35SpecTable {
				bc := entries[sp.Name]
				if bc == nil {
					continue
				}
				r.Case(map[string]any{"part": "params", "config": nc.name, "fork": sp.Name}, func() error {
					if bc.Target != sp.Target || bc.Max != sp.Max || bc.UpdateFraction != sp.Fraction {
						return fmt.Errorf("%s blob schedule %s = %+v, published parameters %+v", nc.name, sp.Name, *bc, sp)
					}
					return nil
				})
			}
			for _, n := range []string{"cancun", "prague", "bpo1", "bpo2", "bpo3", "bpo4", "bpo5"} {
				addSched(n, entries[n])
			}
			var times []uint64
			for _, p := range []*uint64{nc.cfg.ShanghaiTime, nc.cfg.CancunTime, nc.cfg.PragueTime, nc.cfg.OsakaTime, nc.cfg.BPO1Time, nc.cfg.BPO2Time, nc.cfg.BPO3Time, nc.cfg.BPO4Time, nc.cfg.BPO5Time} {
				if p != nil {
					times = append(times, *p-1, *p, *p+1)
				}
			}
			times = append(times, 0, ^uint64(0))
			for _, tm := range c35UniqU(times) {
				want, ok := c35RefSelect(nc.cfg, tm)
				r.Case(c35SelCase{"select", nc.name, tm}, func() error {
					got, err := latestBlobConfig(nc.cfg, tm)
					if (err == nil) != ok {
						return fmt.Errorf("latestBlobConfig err=%v, reference active=%v", err, ok)
					}
					if ok && (got.Target != want.Target || got.Max != want.Max || got.UpdateFraction != want.Fraction) {
						return fmt.Errorf("latestBlobConfig=%+v, reference %+v", got, want)
					}
					if m, tg := MaxBlobsPerBlock(nc.cfg, tm), TargetBlobsPerBlock(nc.cfg, tm); m != want.Max || tg != want.Target {
						return fmt.Errorf("MaxBlobsPerBlock/TargetBlobsPerBlock=%d/%d, reference %d/%d", m, tg, want.Max, want.Target)
					}
					if mg := MaxBlobGasPerBlock(nc.cfg, tm); mg != uint64(want.Max)*c35G {
						return fmt.Errorf("MaxBlobGasPerBlock=%d, reference %d", mg, uint64(want.Max)*c35G)
					}
					return nil
				})
				if ok {
					r.Outcome("select_" + want.Name)
				} else {
					r.Outcome("select_none")
				}
				r.Distinct(fmt.Sprintf("sel|%s|%d", nc.name, tm))
				// real configs at real fork times: the full public path
				if ok && tm != ^uint64(0) {
					osaka := nc.cfg.OsakaTime != nil && *nc.cfg.OsakaTime <= tm
					for _, ex := range []uint64{0, c35G, uint64(want.Target) * c35G, 40 * c35G} {
						for _, used := range []uint64{0, uint64(want.Target) * c35G, uint64(want.Max) * c35G} {
							for _, bf := range []int64{1, 1000000000} {
								ref := c35RefExcess(osaka, want, ex, used, big.NewInt(bf))
								r.Case(map[string]any{"part": "named", "config": nc.name, "time": tm, "excess": ex, "used": used, "basefee": bf}, func() error {
									parent := &types.Header{Number: big.NewInt(100), Time: tm, BaseFee: big.NewInt(bf), ExcessBlobGas: c35U64(ex), BlobGasUsed: c35U64(used)}
									if got := CalcExcessBlobGas(nc.cfg, parent, tm); new(big.Int).SetUint64(got).Cmp(ref) != 0 {
										return fmt.Errorf("CalcExcessBlobGas=%d, reference (%s, osaka=%v) %s", got, want.Name, osaka, ref)
									}
									hdr := &types.Header{Number: big.NewInt(101), Time: tm, ExcessBlobGas: c35U64(ex)}
									if got, wf := CalcBlobFee(nc.cfg, hdr), c35RefBlobFeeCached(ex, want.Fraction); got.Cmp(wf) != 0 {
										return fmt.Errorf("CalcBlobFee=%s, reference %s", got, wf)
									}
									return nil
								})
							}
						}
					}
				}
			}
		}
		sort.Slice(scheds, func(a, b int) bool { return scheds[a].Fraction < scheds[b].Fraction })
		r.Bound("schedules", len(scheds))
		r.Sample(map[string]any{"schedules": scheds})

		// ---------------- fakeExponential on a complete small grid
		for f := int64(0); f <= 12; f++ {
			for n := int64(0); n <= 40; n++ {
				for d := int64(1); d <= 12; d++ {
					r.Case(c35FxCase{"fakeexp", f, n, d}, func() error {
						F, N, D := big.NewInt(f), big.NewInt(n), big.NewInt(d)
						got := fakeExponential(F, N, D)
						want := c35RefFakeExp(big.NewInt(f), big.NewInt(n), big.NewInt(d))
						if got.Cmp(want) != 0 {
							return fmt.Errorf("fakeExponential=%s, EIP-4844 fake_exponential=%s", got, want)
						}
						if F.Int64() != f || N.Int64() != n || D.Int64() != d {
							return fmt.Errorf("fakeExponential modified its arguments")
						}
						return nil
					})
					r.DistinctHash(mc.Hash64(fmt.Sprintf("fx|%d|%d|%d", f, n, d)))
				}
			}
		}

		// ---------------- blob fee + excess blob gas per schedule
		J := mc.Pick(r, 30, 33)      // fee / Osaka domain: excess <= 2^J (+1)
		K := mc.Pick(r, 1024, 16384) // multiples of 2^17 up to K blobs
		r.Bound("fee_domain_log2", J)
		r.Bound("fee_multiples_of_blob", K)
		slotsFor := func(i int) []int { // slots in which schedule i is installed
			if r.Thorough() {
				return []int{0, 1, 2, 3, 4, 5, 6}
			}
			return []int{[]int{0, 1, 2, 3, 4, 5, 6}[i%7], []int{1, 2, 4, 6, 0, 3, 5}[i%7]}
		}
		type job struct {
			si, slot int
			osaka    bool
			kind     string // "fee" or "excess"
			chunk    int
		}
		const chunks = 8
		var jobs []job
		for si := range scheds {
			for _, slot := range slotsFor(si) {
				for ch := 0; ch < chunks; ch++ {
					jobs = append(jobs, job{si, slot, false, "fee", ch})
				}
			}
			for ch := 0; ch < chunks; ch++ {
				jobs = append(jobs, job{si, slotsFor(si)[0], false, "excess", ch})
				jobs = append(jobs, job{si, slotsFor(si)[1], true, "excess", ch})
			}
		}
		// warm the fee-step tables sequentially per schedule (deterministic, cached)
		steps := make([][]uint64, len(scheds))
		r.Parallel(len(scheds), func(i int) { steps[i] = c35FeeSteps(scheds[i].Fraction, 24) })

		feeGrid := func(si int) []uint64 {
			var g []uint64
			for k := 0; k <= K; k++ {
				g = append(g, uint64(k)*c35G)
			}
			for k := 0; k <= 64; k++ {
				g = append(g, uint64(k)*16384)
			}
			for j := 0; j <= J; j++ {
				g = append(g, uint64(1)<<j-1, uint64(1)<<j, uint64(1)<<j+1)
			}
			for _, e := range steps[si] {
				g = append(g, e-1, e, e+1)
			}
			return c35UniqU(g)
		}
		excessGrid := func(s c35Sched, si int, osaka bool) []uint64 {
			var g []uint64
			for k := 0; k <= 3*s.Max; k++ {
				g = append(g, uint64(k)*c35G)
			}
			for _, b := range []uint64{uint64(s.Target) * c35G, uint64(s.Max) * c35G, c35G} {
				g = append(g, b-1, b+1)
			}
			g = append(g, 1, 16384, 5149252, 19251039)
			top := 63
			if osaka {
				top = J
			}
			for j := 18; j <= top; j++ {
				if osaka && j > 24 && j%2 == 1 && j != J {
					continue
				}
				g = append(g, uint64(1)<<j-1, uint64(1)<<j, uint64(1)<<j+1)
			}
			for i, e := range steps[si] {
				if i < 6 {
					g = append(g, e-1, e)
				}
			}
			if !osaka {
				m := ^uint64(0)
				g = append(g, m, m-1, m-c35G, m-c35G+1, m-uint64(s.Target)*c35G, m-uint64(s.Target)*c35G+1, m-uint64(s.Max)*c35G, m-32*c35G, m-32*c35G-1)
			}
			return c35UniqU(g)
		}
		usedGrid := func(s c35Sched) []uint64 {
			var g []uint64
			for _, k := range []int{0, 1, s.Target - 1, s.Target, s.Target + 1, s.Max - 1, s.Max, s.Max + 1, 32} {
				if k >= 0 {
					g = append(g, uint64(k)*c35G)
				}
			}
			g = append(g, 1, c35G+1)
			return c35UniqU(g)
		}
		maxU256 := new(big.Int).Sub(new(big.Int).Lsh(big.NewInt(1), 256), big.NewInt(1))
		baseFees := func(osaka bool, excess, fraction uint64) []*big.Int {
			out := []*big.Int{big.NewInt(0), big.NewInt(1), big.NewInt(1000000000), maxU256}
			if osaka {
				// BLOB_BASE_COST*b > GAS_PER_BLOB*f  <=>  b > 16 f
				f16 := new(big.Int).Mul(c35RefBlobFeeCached(excess, fraction), big.NewInt(16))
				for _, d := range []int64{-1, 0, 1} {
					b := new(big.Int).Add(f16, big.NewInt(d))
					if b.Sign() >= 0 && b.Cmp(maxU256) <= 0 {
						out = append(out, b)
					}
				}
			}
			return out
		}

		r.Parallel(len(jobs), func(ji int) {
			jb := jobs[ji]
			s := scheds[jb.si]
			cfg := c35Config(s, jb.slot, jb.osaka)
			const tm = uint64(100)
			if sel, ok := c35RefSelect(cfg, tm); !ok || sel.Target != s.Target || sel.Max != s.Max || sel.Fraction != s.Fraction {
				r.HarnessError(fmt.Sprintf("synthetic config does not select schedule %+v in slot %d", s, jb.slot))
				return
			}
			counts := map[string]int64{}
			defer func() {
				keys := make([]string, 0, len(counts))
				for k := range counts {
					keys = append(keys, k)
				}
				sort.Strings(keys)
				for _, k := range keys {
					r.OutcomeN(k, counts[k])
				}
			}()
			if jb.kind == "fee" {
				grid := feeGrid(jb.si)
				var prev *big.Int
				var prevE uint64
				for gi, e := range grid {
					if gi%chunks != jb.chunk {
						continue
					}
					if r.Expired() {
						return
					}
					var got *big.Int
					r.Case(c35FeeCase{"blobfee", s, jb.slot, e}, func() error {
						want := c35RefBlobFeeCached(e, s.Fraction)
						got = CalcBlobFee(cfg, &types.Header{Number: big.NewInt(9), Time: tm, ExcessBlobGas: c35U64(e)})
						if got.Cmp(want) != 0 {
							return fmt.Errorf("CalcBlobFee=%s, fake_exponential(1,%d,%d)=%s", got, e, s.Fraction, want)
						}
						if got.Sign() < 1 {
							return fmt.Errorf("blob fee %s below MIN_BASE_FEE_PER_BLOB_GAS", got)
						}
						if prev != nil && got.Cmp(prev) < 0 {
							return fmt.Errorf("blob fee not monotone: fee(%d)=%s > fee(%d)=%s", prevE, prev, e, got)
						}
						return nil
					})
					if got != nil {
						prev, prevE = got, e
						if got.IsUint64() && got.Uint64() == 1 {
							counts["blobfee_min"]++
						} else {
							counts["blobfee_above_min"]++
						}
					}
					r.DistinctHash(mc.Hash64(fmt.Sprintf("fee|%d|%d", s.Fraction, e)))
				}
				if jb.chunk == 0 {
					r.Sample(c35FeeCase{"blobfee", s, jb.slot, steps[jb.si][0]})
				}
				return
			}
			// excess blob gas
			grid := excessGrid(s, jb.si, jb.osaka)
			maxU64 := new(big.Int).SetUint64(^uint64(0))
			for gi, pe := range grid {
				if gi%chunks != jb.chunk {
					continue
				}
				for _, pu := range usedGrid(s) {
					if r.Expired() {
						return
					}
					for _, bf := range baseFees(jb.osaka, pe, s.Fraction) {
						c := c35ExCase{"excess", s, jb.slot, jb.osaka, pe, pu, bf.String()}
						wraps := new(big.Int).Add(new(big.Int).SetUint64(pe), new(big.Int).SetUint64(pu)).Cmp(maxU64) > 0
						ref := c35RefExcess(jb.osaka, s, pe, pu, bf)
						class := ""
						r.Case(c, func() error {
							parent := &types.Header{Number: big.NewInt(100), Time: tm - 1, BaseFee: new(big.Int).Set(bf), ExcessBlobGas: c35U64(pe), BlobGasUsed: c35U64(pu)}
							got := CalcExcessBlobGas(cfg, parent, tm)
							if parent.BaseFee.Cmp(bf) != 0 || *parent.ExcessBlobGas != pe || *parent.BlobGasUsed != pu {
								return fmt.Errorf("CalcExcessBlobGas modified the parent header")
							}
							if wraps {
								if new(big.Int).SetUint64(got).Cmp(ref) == 0 {
									class = "excess_uint64_wrap_agrees"
									return nil
								}
								class = "excess_uint64_wrap_diverges"
								if strictWrap {
									return fmt.Errorf("uint64 wrap-around: CalcExcessBlobGas=%d, calc_excess_blob_gas in unbounded integers = %s", got, ref)
								}
								return nil
							}
							if new(big.Int).SetUint64(got).Cmp(ref) != 0 {
								return fmt.Errorf("CalcExcessBlobGas=%d, calc_excess_blob_gas=%s", got, ref)
							}
							switch {
							case got == 0 && pe+pu < uint64(s.Target)*c35G:
								class = "excess_zero"
							case got == pe+pu-uint64(s.Target)*c35G:
								class = "excess_classic"
							default:
								class = "excess_reserve_price"
							}
							// header verification: exactly this value
							for _, d := range []int64{0, 1, -1} {
								hv := new(big.Int).Add(ref, big.NewInt(d))
								if hv.Sign() < 0 || !hv.IsUint64() {
									continue
								}
								hdr := &types.Header{Number: big.NewInt(101), Time: tm, ExcessBlobGas: c35U64(hv.Uint64()), BlobGasUsed: c35U64(uint64(s.Max) * c35G)}
								err := VerifyEIP4844Header(cfg, parent, hdr)
								if (err == nil) != (d == 0) {
									return fmt.Errorf("VerifyEIP4844Header(excess %s%+d) err=%v", ref, d, err)
								}
							}
							return nil
						})
						if class != "" {
							counts[class]++
							r.DistinctHash(mc.Hash64(fmt.Sprintf("ex|%v|%d|%d|%d|%d|%d|%s", jb.osaka, s.Target, s.Max, s.Fraction, pe, pu, bf)))
						}
					}
				}
			}
			// blobGasUsed / missing-field checks of the header and the fork-block parent (no blob fields): once per job
			if jb.chunk == 0 {
				parent := &types.Header{Number: big.NewInt(100), Time: tm - 1, BaseFee: big.NewInt(7), ExcessBlobGas: c35U64(0), BlobGasUsed: c35U64(0)}
				type hv struct {
					name         string
					excess, used *uint64
					ok           bool
				}
				for _, h := range []hv{
					{"used=0", c35U64(0), c35U64(0), true},
					{"used=max", c35U64(0), c35U64(uint64(s.Max) * c35G), true},
					{"used=max+1blob", c35U64(0), c35U64(uint64(s.Max+1) * c35G), false},
					{"used=non-multiple", c35U64(0), c35U64(c35G + 1), false},
					{"used=1", c35U64(0), c35U64(1), false},
					{"used=nil", c35U64(0), nil, false},
					{"excess=nil", nil, c35U64(0), false},
				} {
					r.Case(map[string]any{"part": "hdrfields", "sched": s, "slot": jb.slot, "osaka": jb.osaka, "hdr": h.name}, func() error {
						hdr := &types.Header{Number: big.NewInt(101), Time: tm, ExcessBlobGas: h.excess, BlobGasUsed: h.used}
						if err := VerifyEIP4844Header(cfg, parent, hdr); (err == nil) != h.ok {
							return fmt.Errorf("VerifyEIP4844Header(%s) err=%v, specification accepts=%v", h.name, err, h.ok)
						}
						return nil
					})
					if h.ok {
						counts["hdrfields_accepted"]++
					} else {
						counts["hdrfields_rejected"]++
					}
				}
				r.Case(map[string]any{"part": "forkparent", "sched": s, "slot": jb.slot, "osaka": jb.osaka}, func() error {
					p := &types.Header{Number: big.NewInt(100), Time: tm - 1, BaseFee: big.NewInt(7)}
					if got := CalcExcessBlobGas(cfg, p, tm); got != 0 {
						return fmt.Errorf("parent without blob fields: excess %d, want 0", got)
					}
					return nil
				})
				r.Sample(c35ExCase{"excess", s, jb.slot, jb.osaka, uint64(s.Target) * c35G, uint64(s.Max) * c35G, "1"})
			}
		})
	})
}
