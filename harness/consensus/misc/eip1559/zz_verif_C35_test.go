//go:build verif

package eip1559

import (
	"fmt"
	"math/big"
	"sort"
	"testing"

	"github.com/ethereum/go-ethereum/consensus/misc"
	"github.com/ethereum/go-ethereum/core/types"
	"github.com/ethereum/go-ethereum/internal/verif/mc"
	"github.com/ethereum/go-ethereum/params"
)

// ---------------------------------------------------------------------------
// Reference: EIP-1559 "Specification" section transcribed into math/big with
// literal constants (no use of params or of the code under test).
//
//	BASE_FEE_MAX_CHANGE_DENOMINATOR = 8, ELASTICITY_MULTIPLIER = 2,
//	INITIAL_BASE_FEE = 1000000000, gas limit bound divisor 1024, minimum 5000.

var (
	c35Denominator = big.NewInt(8)
	c35Elasticity  = big.NewInt(2)
	c35InitialFee  = big.NewInt(1000000000)
)

// c35RefBaseFee is expected_base_fee_per_gas of EIP-1559 for a parent that is
// itself an EIP-1559 block.
func c35RefBaseFee(parentGasLimit, parentGasUsed uint64, parentBaseFee *big.Int) *big.Int {
	limit := new(big.Int).SetUint64(parentGasLimit)
	used := new(big.Int).SetUint64(parentGasUsed)
	target := new(big.Int).Quo(limit, c35Elasticity) // parent_gas_target = parent.gas_limit // ELASTICITY_MULTIPLIER
	switch used.Cmp(target) {
	case 0:
		return new(big.Int).Set(parentBaseFee)
	case 1:
		gasUsedDelta := new(big.Int).Sub(used, target)
		d := new(big.Int).Mul(parentBaseFee, gasUsedDelta)
		d.Quo(d, target)
		d.Quo(d, c35Denominator)
		if d.Sign() < 1 { // max(..., 1)
			d.SetInt64(1)
		}
		return d.Add(parentBaseFee, d)
	default:
		gasUsedDelta := new(big.Int).Sub(target, used)
		d := new(big.Int).Mul(parentBaseFee, gasUsedDelta)
		d.Quo(d, target)
		d.Quo(d, c35Denominator)
		return d.Sub(parentBaseFee, d)
	}
}

// c35RefGasLimitOK is the header gas-limit validity of EIP-1559 / Yellow Paper (47):
// strictly inside parent +- parent//1024 and at least 5000.
func c35RefGasLimitOK(parentGasLimit, gasLimit uint64) bool {
	p := new(big.Int).SetUint64(parentGasLimit)
	g := new(big.Int).SetUint64(gasLimit)
	bound := new(big.Int).Quo(p, big.NewInt(1024))
	if g.Cmp(new(big.Int).Add(p, bound)) >= 0 {
		return false
	}
	if g.Cmp(new(big.Int).Sub(p, bound)) <= 0 {
		return false
	}
	return g.Cmp(big.NewInt(5000)) >= 0
}

// ---------------------------------------------------------------------------
// grids

func c35Uniq(in []uint64) []uint64 {
	sort.Slice(in, func(a, b int) bool { return in[a] < in[b] })
	out := in[:0]
	for i, v := range in {
		if i == 0 || v != in[i-1] {
			out = append(out, v)
		}
	}
	return out
}

const c35MaxGasLimit = uint64(1)<<63 - 1

// c35GasLimits: every value 5000..5016, 2^k-1/2^k/2^k+1 for k=13..62, mainnet-like
// values and the maximal valid gas limit 2^63-1.
func c35GasLimits() []uint64 {
	var l []uint64
	for v := uint64(5000); v <= 5016; v++ {
		l = append(l, v)
	}
	for k := 13; k <= 62; k++ {
		l = append(l, uint64(1)<<k-1, uint64(1)<<k, uint64(1)<<k+1)
	}
	l = append(l, 29_999_999, 30_000_000, 30_000_001, 36_000_000, 45_000_000, 60_000_001, c35MaxGasLimit-1, c35MaxGasLimit)
	return c35Uniq(l)
}

func c35GasUsed(limit uint64) []uint64 {
	t := limit / 2
	u := []uint64{0, 1, t / 2, t - 1, t, t + 1, t + t/2, 2*t - 1, 2 * t, limit - 1, limit}
	var out []uint64
	for _, v := range u {
		if v <= limit {
			out = append(out, v)
		}
	}
	return c35Uniq(out)
}

// c35BaseFees: every value 0..64, 2^k-1/2^k/2^k+1 for k=7..256 (thinned above 72 in the quick tier), and
// values around the initial base fee.
func c35BaseFees(allBits bool) []*big.Int {
	seen := map[string]bool{}
	var out []*big.Int
	add := func(b *big.Int) {
		if b.Sign() < 0 || b.BitLen() > 256 {
			return
		}
		if !seen[b.String()] {
			seen[b.String()] = true
			out = append(out, b)
		}
	}
	for v := int64(0); v <= 64; v++ {
		add(big.NewInt(v))
	}
	for k := 7; k <= 256; k++ {
		if !allBits && k > 72 && k%8 != 0 && k != 255 && k != 127 && k != 129 {
			continue
		}
		p := new(big.Int).Lsh(big.NewInt(1), uint(k))
		add(new(big.Int).Sub(p, big.NewInt(1)))
		add(p)
		add(new(big.Int).Add(p, big.NewInt(1)))
	}
	for _, v := range []int64{875000000, 999999999, 1000000000, 1000000001, 1125000000, 7000000000} {
		add(big.NewInt(v))
	}
	sort.Slice(out, func(a, b int) bool { return out[a].Cmp(out[b]) < 0 })
	return out
}

func c35LondonConfig(londonBlock int64) *params.ChainConfig {
	cfg := *params.TestChainConfig
	cfg.LondonBlock = big.NewInt(londonBlock)
	return &cfg
}

type c35BFCase struct {
	Part     string `json:"part"`
	GasLimit uint64 `json:"parent_gas_limit"`
	GasUsed  uint64 `json:"parent_gas_used"`
	BaseFee  string `json:"parent_base_fee"`
}

// TestVerif_C35 runs both parts (one mc.Run per step: one result file).
func TestVerif_C35(t *testing.T) {
	mc.Run(t, "C35", func(r *mc.R) {
		a := c35BaseFeePart(r)
		b := c35GasLimitPart(r)
		r.Rule(a + " ;; " + b)
	})
}

// c35BaseFeePart: CalcBaseFee / VerifyEIP1559Header against the EIP-1559
// formula on the complete Cartesian grid gasLimit x gasUsed x baseFee.
func c35BaseFeePart(r *mc.R) (rule string) {
	{
		limits := c35GasLimits()
		fees := c35BaseFees(r.Thorough())
		cfg := c35LondonConfig(0)
		rule = ("[basefee] complete grid: parent gasLimit in {5000..5016, 2^k-1,2^k,2^k+1 (k=13..62), 30M-ish, 2^63-2, 2^63-1} x parent gasUsed in " +
			"{0,1,t/2,t-1,t,t+1,3t/2,2t-1,2t,limit-1,limit} x parent baseFee in {0..64, 2^k-1,2^k,2^k+1 (k=7..72 and k=80,88,..,256,127,129,255 quick / every k=7..256 thorough), values near 1e9}; " +
			"each triple: CalcBaseFee == EIP-1559 formula in math/big, parent not mutated, |delta| <= max(1,parent/8) when gasUsed <= 2*target, " +
			"VerifyEIP1559Header accepts exactly the value and rejects +-1; distinct = distinct (class, parent triple) with a non-zero fee change")
		r.Bound("gas_limits", len(limits))
		r.Bound("base_fees", len(fees))
		r.Assume("parent header is valid: 5000 <= gasLimit <= 2^63-1 (params.MinGasLimit/MaxGasLimit enforced by header verification), gasUsed <= gasLimit, baseFee present, 0 <= baseFee < 2^256")
		r.Assume("reference = EIP-1559 pseudo-code transcribed into math/big with literal constants 8, 2, 1e9, 1024, 5000")
		one := big.NewInt(1)
		r.Parallel(len(limits), func(li int) {
			L := limits[li]
			counts := map[string]int64{}
			for _, U := range c35GasUsed(L) {
				for _, B := range fees {
					c := c35BFCase{"basefee", L, U, B.String()}
					var class string
					r.Case(c, func() error {
						keep := new(big.Int).Set(B)
						parent := &types.Header{Number: big.NewInt(7), GasLimit: L, GasUsed: U, BaseFee: B}
						want := c35RefBaseFee(L, U, B)
						got := CalcBaseFee(cfg, parent)
						if B.Cmp(keep) != 0 {
							return fmt.Errorf("CalcBaseFee mutated parent.BaseFee: %s -> %s", keep, B)
						}
						if got == nil || got.Cmp(want) != 0 {
							return fmt.Errorf("CalcBaseFee=%v, EIP-1559 formula gives %s", got, want)
						}
						if got.Sign() < 0 {
							return fmt.Errorf("negative base fee %s", got)
						}
						// stated bound: change of at most one eighth (at least 1 upwards) when gasUsed is within
						// elasticity*target; for an odd gas limit gasUsed==limit==2*target+1 exceeds that and the
						// formula itself may exceed parent/8, so the bound is not asserted there.
						delta := new(big.Int).Sub(got, B)
						switch delta.Sign() {
						case 0:
							class = "unchanged"
						case 1:
							class = "up"
						default:
							class = "down"
						}
						if U <= 2*(L/2) {
							lim := new(big.Int).Quo(B, c35Denominator)
							if delta.Sign() > 0 && lim.Cmp(one) < 0 {
								lim = one
							}
							if new(big.Int).Abs(delta).Cmp(lim) > 0 {
								return fmt.Errorf("|delta|=%s exceeds bound %s", delta, lim)
							}
						} else {
							class += "_over_elasticity"
						}
						switch {
						case U > L/2 && delta.Sign() <= 0, U == L/2 && delta.Sign() != 0, U < L/2 && delta.Sign() > 0:
							return fmt.Errorf("direction wrong: used=%d target=%d delta=%s", U, L/2, delta)
						}
						// verification accepts exactly the computed value
						hdr := &types.Header{Number: big.NewInt(8), GasLimit: L, BaseFee: new(big.Int).Set(want)}
						if err := VerifyEIP1559Header(cfg, parent, hdr); err != nil {
							return fmt.Errorf("VerifyEIP1559Header rejects the specified base fee %s: %v", want, err)
						}
						hdr.BaseFee = new(big.Int).Add(want, one)
						if err := VerifyEIP1559Header(cfg, parent, hdr); err == nil {
							return fmt.Errorf("VerifyEIP1559Header accepts base fee %s, specified %s", hdr.BaseFee, want)
						}
						if want.Sign() > 0 {
							hdr.BaseFee = new(big.Int).Sub(want, one)
							if err := VerifyEIP1559Header(cfg, parent, hdr); err == nil {
								return fmt.Errorf("VerifyEIP1559Header accepts base fee %s, specified %s", hdr.BaseFee, want)
							}
						}
						hdr.BaseFee = nil
						if err := VerifyEIP1559Header(cfg, parent, hdr); err == nil {
							return fmt.Errorf("VerifyEIP1559Header accepts a header without base fee")
						}
						return nil
					})
					if class != "" {
						counts[class]++
						if class != "unchanged" {
							r.DistinctHash(mc.Hash64(fmt.Sprintf("%s|%d|%d|%s", class, L, U, B)))
						}
					}
				}
			}
			for _, k := range []string{"unchanged", "up", "down", "up_over_elasticity"} {
				if counts[k] > 0 {
					r.OutcomeN("basefee_"+k, counts[k])
				}
			}
			if li%29 == 0 {
				r.Sample(c35BFCase{"basefee", L, L / 2, "1000000000"})
			}
		})
	}
	return rule
}

type c35GLCase struct {
	Part   string `json:"part"`
	Parent uint64 `json:"parent_gas_limit"`
	Header uint64 `json:"gas_limit"`
	Fork   bool   `json:"fork_block,omitempty"`
}

// c35HeaderLimits returns the header gas limits probed for one parent: +-2
// around parent, around both bounds parent -+ parent//1024, and absolute values.
func c35HeaderLimits(p uint64) []uint64 {
	b := p / 1024
	var out []uint64
	add := func(v *big.Int) {
		if v.Sign() >= 0 && v.IsUint64() && v.Uint64() <= c35MaxGasLimit {
			out = append(out, v.Uint64())
		}
	}
	P := new(big.Int).SetUint64(p)
	Bd := new(big.Int).SetUint64(b)
	for d := int64(-2); d <= 2; d++ {
		D := big.NewInt(d)
		add(new(big.Int).Add(P, D))
		add(new(big.Int).Add(new(big.Int).Add(P, Bd), D))
		add(new(big.Int).Add(new(big.Int).Sub(P, Bd), D))
	}
	out = append(out, 0, 1, 4999, 5000, 5001, c35MaxGasLimit-1, c35MaxGasLimit)
	return c35Uniq(out)
}

// c35GasLimitPart: misc.VerifyGaslimit and the gas-limit part of
// VerifyEIP1559Header (incl. the fork block, where the parent limit is scaled by
// the elasticity multiplier and the base fee must be INITIAL_BASE_FEE).
func c35GasLimitPart(r *mc.R) (rule string) {
	{
		var parents []uint64
		hi := mc.Pick(r, uint64(9300), uint64(70000))
		for v := uint64(4990); v <= hi; v++ {
			parents = append(parents, v)
		}
		parents = append(parents, 0, 1, 1023, 1024, 1025, 2047, 2048)
		parents = append(parents, c35GasLimits()...)
		parents = c35Uniq(parents)
		rule = ("[gaslimit] every parent gas limit in 4990..N plus {0,1,1023,1024,1025,2047,2048} plus the boundary set of the base-fee grid, x header gas limit in " +
			"{parent+d, parent-parent//1024+d, parent+parent//1024+d : d=-2..2} + {0,1,4999,5000,5001,2^63-2,2^63-1}; accept/reject of misc.VerifyGaslimit and of " +
			"VerifyEIP1559Header (London parent; and fork block with parent limit x2, base fee 1e9 +-1) == spec predicate; distinct = (parent,header) pairs, outcomes accepted/rejected")
		r.Bound("parents", len(parents))
		r.Bound("dense_parent_range_hi", hi)
		r.Assume("gas limits are <= 2^63-1 (params.MaxGasLimit, enforced on every header before this check); larger values are outside the domain of misc.VerifyGaslimit's int64 arithmetic")
		cfg0 := c35LondonConfig(0)
		cfg5 := c35LondonConfig(5)
		r.Parallel(len(parents), func(pi int) {
			p := parents[pi]
			acc, rej := int64(0), int64(0)
			for _, h := range c35HeaderLimits(p) {
				want := c35RefGasLimitOK(p, h)
				c := c35GLCase{"gaslimit", p, h, false}
				r.Case(c, func() error {
					if got := misc.VerifyGaslimit(p, h) == nil; got != want {
						return fmt.Errorf("misc.VerifyGaslimit(%d,%d) accepted=%v, specification says %v", p, h, got, want)
					}
					if p >= 5000 {
						parent := &types.Header{Number: big.NewInt(7), GasLimit: p, GasUsed: p / 2, BaseFee: big.NewInt(1000000000)}
						hdr := &types.Header{Number: big.NewInt(8), GasLimit: h, BaseFee: big.NewInt(1000000000)}
						if got := VerifyEIP1559Header(cfg0, parent, hdr) == nil; got != want {
							return fmt.Errorf("VerifyEIP1559Header(parent limit %d, limit %d) accepted=%v, specification says %v", p, h, got, want)
						}
					}
					return nil
				})
				r.DistinctHash(mc.Hash64(fmt.Sprintf("gl|%d|%d", p, h)))
				if want {
					acc++
				} else {
					rej++
				}
			}
			// fork block: parent is pre-London (number 4, fork at 5): parent_gas_limit = parent.gas_limit * 2,
			// expected base fee = INITIAL_BASE_FEE regardless of the parent.
			if p >= 2500 && p <= c35MaxGasLimit/2 {
				for _, h := range c35HeaderLimits(2 * p) {
					want := c35RefGasLimitOK(2*p, h)
					c := c35GLCase{"gaslimit", p, h, true}
					r.Case(c, func() error {
						parent := &types.Header{Number: big.NewInt(4), GasLimit: p, GasUsed: p}
						if bf := CalcBaseFee(cfg5, parent); bf == nil || bf.Cmp(c35InitialFee) != 0 {
							return fmt.Errorf("fork block base fee %v, want %s", bf, c35InitialFee)
						}
						for _, d := range []int64{-1, 0, 1} {
							hdr := &types.Header{Number: big.NewInt(5), GasLimit: h, BaseFee: big.NewInt(1000000000 + d)}
							if got := VerifyEIP1559Header(cfg5, parent, hdr) == nil; got != (want && d == 0) {
								return fmt.Errorf("fork block: VerifyEIP1559Header(parent limit %d, limit %d, baseFee 1e9%+d) accepted=%v, specification says %v", p, h, d, got, want && d == 0)
							}
						}
						return nil
					})
					r.DistinctHash(mc.Hash64(fmt.Sprintf("glf|%d|%d", p, h)))
					if want {
						acc++
					} else {
						rej++
					}
				}
			}
			r.OutcomeN("gaslimit_accepted", acc)
			r.OutcomeN("gaslimit_rejected", rej)
			if pi%997 == 0 {
				r.Sample(c35GLCase{"gaslimit", p, p + p/1024 - 1, false})
			}
		})
	}
	return rule
}
