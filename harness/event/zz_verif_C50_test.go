//go:build verif

package event

import (
	"fmt"
	"sort"
	"strings"
	"sync"
	"sync/atomic"
	"testing"

	"github.com/ethereum/go-ethereum/internal/verif/mc"
	"github.com/ethereum/go-ethereum/internal/verif/vsched"
)

// ---- generic access to Feed and FeedOf[int] -------------------------------------------

type c50Feed interface {
	sub(ch chan int) Subscription
	send(v int) int
	// white-box: channels currently registered (sendCases beyond the removeSub slot + inbox)
	registered() []any
}

type c50Plain struct{ f Feed }

func (p *c50Plain) sub(ch chan int) Subscription { return p.f.Subscribe(ch) }
func (p *c50Plain) send(v int) int               { return p.f.Send(v) }
func (p *c50Plain) registered() []any {
	var out []any
	for i := firstSubSendCase; i < len(p.f.sendCases); i++ {
		out = append(out, p.f.sendCases[i].Chan.Interface())
	}
	for _, c := range p.f.inbox {
		out = append(out, c.Chan.Interface())
	}
	return out
}

type c50Typed struct{ f FeedOf[int] }

func (p *c50Typed) sub(ch chan int) Subscription { return p.f.Subscribe(ch) }
func (p *c50Typed) send(v int) int               { return p.f.Send(v) }
func (p *c50Typed) registered() []any {
	var out []any
	for i := firstSubSendCase; i < len(p.f.sendCases); i++ {
		out = append(out, p.f.sendCases[i].Chan.Interface())
	}
	for _, c := range p.f.inbox {
		out = append(out, c.Chan.Interface())
	}
	return out
}

// ---- scenario description ---------------------------------------------------------------

type c50Act struct {
	Kind string // "send", "unsub", "sub"
	Arg  int    // value to send / index of the subscription
}

type c50Sub struct {
	Cap      int  // channel capacity
	Receiver int  // number of values a receiver thread takes from the channel (0 = no receiver thread)
	Late     bool // not pre-subscribed: created by a "sub" action
}

type c50Scenario struct {
	Name    string
	Subs    []c50Sub
	Threads [][]c50Act
}

type c50Event struct {
	kind string // send-call send-ret sub-ret unsub-call unsub-ret
	arg  int    // value or subscription index
	n    int    // Send's return value
	seq  int
}

type c50State struct {
	mu            sync.Mutex // protects the recorder in the free-running -race pass (never held across a scheduling point)
	feed          c50Feed
	chans         []chan int
	subs          []Subscription
	events        []c50Event
	got           [][]int // values taken by receiver threads, per subscription
	lenAtUnsubRet []int
	gotAtUnsubRet []int
	finished      atomic.Int32
	rdone         atomic.Int32
}

func (st *c50State) ev(kind string, arg, n int) {
	st.mu.Lock()
	st.events = append(st.events, c50Event{kind, arg, n, len(st.events)})
	st.mu.Unlock()
}

func c50Body(sc c50Scenario, typed bool) func() {
	return func() {
		st := &c50State{}
		vsched.SetData(st)
		if typed {
			st.feed = &c50Typed{}
		} else {
			st.feed = &c50Plain{}
		}
		st.chans = make([]chan int, len(sc.Subs))
		st.subs = make([]Subscription, len(sc.Subs))
		st.got = make([][]int, len(sc.Subs))
		st.lenAtUnsubRet = make([]int, len(sc.Subs))
		st.gotAtUnsubRet = make([]int, len(sc.Subs))
		for i := range st.lenAtUnsubRet {
			st.lenAtUnsubRet[i] = -1
		}
		stop := make(chan struct{})
		for i, s := range sc.Subs {
			st.chans[i] = make(chan int, s.Cap)
			if !s.Late {
				st.subs[i] = st.feed.sub(st.chans[i])
				st.ev("sub-ret", i, 0)
			}
		}
		nrecv := 0
		for i, s := range sc.Subs {
			if s.Receiver > 0 {
				nrecv++
				i, s := i, s
				vsched.GoNamed(fmt.Sprintf("recv%d", i), func() {
					defer func() { st.rdone.Add(1) }()
					for k := 0; k < s.Receiver; k++ {
						sel := vsched.NewSelect(false)
						rx := vsched.AddRecv(sel, st.chans[i])
						vsched.AddRecv(sel, stop)
						if sel.Do() != 0 {
							return
						}
						st.mu.Lock()
						st.got[i] = append(st.got[i], rx.Val())
						st.mu.Unlock()
					}
				})
			}
		}
		for ti, script := range sc.Threads {
			script := script
			vsched.GoNamed(fmt.Sprintf("T%d", ti), func() {
				defer func() { st.finished.Add(1) }()
				for _, a := range script {
					switch a.Kind {
					case "send":
						st.ev("send-call", a.Arg, 0)
						n := st.feed.send(a.Arg)
						st.ev("send-ret", a.Arg, n)
					case "unsub":
						st.ev("unsub-call", a.Arg, 0)
						st.subs[a.Arg].Unsubscribe()
						st.mu.Lock()
						st.lenAtUnsubRet[a.Arg] = len(st.chans[a.Arg])
						st.gotAtUnsubRet[a.Arg] = len(st.got[a.Arg]) + vsched.InFlightRecv(st.chans[a.Arg])
						st.mu.Unlock()
						st.ev("unsub-ret", a.Arg, 0)
					case "sub":
						st.subs[a.Arg] = st.feed.sub(st.chans[a.Arg])
						st.ev("sub-ret", a.Arg, 0)
					}
				}
			})
		}
		vsched.Await(func() bool { return int(st.finished.Load()) == len(sc.Threads) })
		vsched.Close(stop)
		vsched.Await(func() bool { return int(st.rdone.Load()) == nrecv })
		if !vsched.Active() {
			c50Free = st
		}
	}
}

// c50Check is the oracle, evaluated on the recorded call/return history of one execution.
func c50Check(sc c50Scenario) func(x *vsched.Exec) error {
	return func(x *vsched.Exec) error {
		if len(x.Panics) > 0 {
			return fmt.Errorf("panic in a feed operation: %s", x.Panics[0])
		}
		if x.Deadlock != "" {
			return fmt.Errorf("deadlock: %s", x.Deadlock)
		}
		if x.Horizon {
			return fmt.Errorf("execution did not terminate within the step horizon (livelock)")
		}
		st := x.Data.(*c50State)
		// everything each channel got, in order: receiver thread first, then what is left in the buffer
		recvd := make([][]int, len(sc.Subs))
		for i := range sc.Subs {
			recvd[i] = append(recvd[i], st.got[i]...)
			for len(st.chans[i]) > 0 {
				recvd[i] = append(recvd[i], <-st.chans[i])
			}
		}
		pos := func(kind string, arg int) int {
			for _, e := range st.events {
				if e.kind == kind && e.arg == arg {
					return e.seq
				}
			}
			return -1
		}
		count := func(xs []int, v int) int {
			n := 0
			for _, y := range xs {
				if y == v {
					n++
				}
			}
			return n
		}
		for _, e := range st.events {
			if e.kind != "send-ret" {
				continue
			}
			v := e.arg
			call, ret := pos("send-call", v), e.seq
			delivered := 0
			for i := range sc.Subs {
				c := count(recvd[i], v)
				if c > 1 {
					return fmt.Errorf("value %d delivered %d times to subscription %d (history %s)", v, c, i, c50Hist(st))
				}
				delivered += c
				subRet, unsubCall, unsubRet := pos("sub-ret", i), pos("unsub-call", i), pos("unsub-ret", i)
				activeWhole := subRet >= 0 && subRet < call && (unsubCall < 0 || unsubCall > ret)
				possible := true
				// a subscription whose Subscribe was not even called before Send returned, or whose Unsubscribe
				// returned before Send was called, must not get the value
				if unsubRet >= 0 && unsubRet < call {
					possible = false
				}
				if activeWhole && c != 1 {
					return fmt.Errorf("subscription %d was active for the whole Send(%d) but received it %d times (history %s)", i, v, c, c50Hist(st))
				}
				if !possible && c != 0 {
					return fmt.Errorf("subscription %d received %d although its Unsubscribe had returned before the Send was called (history %s)", i, v, c50Hist(st))
				}
			}
			if delivered != e.n {
				return fmt.Errorf("Send(%d) returned %d but %d channels received the value (history %s)", v, e.n, delivered, c50Hist(st))
			}
		}
		// nothing delivered after Unsubscribe returned
		for i := range sc.Subs {
			if st.lenAtUnsubRet[i] >= 0 {
				after := len(recvd[i]) - st.gotAtUnsubRet[i]
				if after != st.lenAtUnsubRet[i] {
					return fmt.Errorf("subscription %d: %d values pending when Unsubscribe returned, %d seen afterwards: delivery after unsubscribe (history %s)", i, st.lenAtUnsubRet[i], after, c50Hist(st))
				}
			}
		}
		// order: sends are totally ordered by the send lock; two channels agree on the order of values they both got,
		// and values of one sender thread arrive in program order
		for i := range sc.Subs {
			for j := range sc.Subs {
				for a := 0; a < len(recvd[i]); a++ {
					for b := a + 1; b < len(recvd[i]); b++ {
						va, vb := recvd[i][a], recvd[i][b]
						ia, ib := -1, -1
						for k, y := range recvd[j] {
							if y == va {
								ia = k
							}
							if y == vb {
								ib = k
							}
						}
						if ia >= 0 && ib >= 0 && ia > ib {
							return fmt.Errorf("subscriptions %d and %d saw values %d,%d in different orders (history %s)", i, j, va, vb, c50Hist(st))
						}
					}
				}
			}
			for a := 0; a < len(recvd[i]); a++ {
				for b := a + 1; b < len(recvd[i]); b++ {
					// program order: Send(va) returned before Send(vb) was called => va before vb
					if r, c := pos("send-ret", recvd[i][b]), pos("send-call", recvd[i][a]); r >= 0 && c >= 0 && r < c {
						return fmt.Errorf("subscription %d saw %d before %d although Send(%d) returned before Send(%d) was called (history %s)", i, recvd[i][a], recvd[i][b], recvd[i][b], recvd[i][a], c50Hist(st))
					}
				}
			}
		}
		// white-box quiescence: the feed's case lists hold exactly the live subscriptions
		reg := st.feed.registered()
		want := 0
		for i := range sc.Subs {
			live := pos("sub-ret", i) >= 0 && pos("unsub-ret", i) < 0
			found := 0
			for _, c := range reg {
				if c == any(st.chans[i]) || c == any((chan<- int)(st.chans[i])) {
					found++
				}
			}
			if live {
				want++
				if found != 1 {
					return fmt.Errorf("live subscription %d registered %d times in the feed at quiescence (history %s)", i, found, c50Hist(st))
				}
			} else if found != 0 {
				return fmt.Errorf("removed subscription %d still registered in the feed at quiescence (history %s)", i, c50Hist(st))
			}
		}
		if len(reg) != want {
			return fmt.Errorf("feed holds %d channels at quiescence, want %d (history %s)", len(reg), want, c50Hist(st))
		}
		return nil
	}
}

func c50Hist(st *c50State) string {
	var parts []string
	for _, e := range st.events {
		parts = append(parts, fmt.Sprintf("%s(%d)=%d", e.kind, e.arg, e.n))
	}
	return strings.Join(parts, " ")
}

func c50Obs(sc c50Scenario) func(x *vsched.Exec) string {
	return func(x *vsched.Exec) string {
		st, ok := x.Data.(*c50State)
		if !ok {
			return "nodata"
		}
		var parts []string
		for _, e := range st.events {
			if e.kind == "send-ret" {
				parts = append(parts, fmt.Sprintf("s%d=%d", e.arg, e.n))
			}
		}
		sort.Strings(parts)
		for i := range sc.Subs {
			parts = append(parts, fmt.Sprintf("got%d=%v+%d", i, st.got[i], len(st.chans[i])))
		}
		return strings.Join(parts, " ")
	}
}

func c50Scenarios() []c50Scenario {
	S := func(v int) c50Act { return c50Act{"send", v} }
	U := func(i int) c50Act { return c50Act{"unsub", i} }
	N := func(i int) c50Act { return c50Act{"sub", i} }
	return []c50Scenario{
		{Name: "H1-two-senders", Subs: []c50Sub{{Cap: 4}, {Cap: 4}}, Threads: [][]c50Act{{S(1)}, {S(2), S(3)}}},
		{Name: "H2a-send-vs-unsub-buffered", Subs: []c50Sub{{Cap: 4}, {Cap: 4}}, Threads: [][]c50Act{{S(1), S(2)}, {U(0)}}},
		{Name: "H2b-send-vs-unsub-unbuffered-recv", Subs: []c50Sub{{Cap: 0, Receiver: 2}, {Cap: 4}}, Threads: [][]c50Act{{S(1), S(2)}, {U(0)}}},
		{Name: "H2c-send-blocked-until-unsub", Subs: []c50Sub{{Cap: 0}, {Cap: 4}}, Threads: [][]c50Act{{S(1)}, {U(0)}}},
		{Name: "H3-send-sub-unsub", Subs: []c50Sub{{Cap: 4}, {Cap: 4, Late: true}}, Threads: [][]c50Act{{S(1), S(2)}, {N(1)}, {U(0)}}},
		{Name: "H4-two-unsubs-blocked-send", Subs: []c50Sub{{Cap: 0}, {Cap: 0}}, Threads: [][]c50Act{{S(1)}, {U(0)}, {U(1)}}},
		{Name: "H5-full-buffers", Subs: []c50Sub{{Cap: 1, Receiver: 1}, {Cap: 1}}, Threads: [][]c50Act{{S(1), S(2)}, {U(1)}}},
		{Name: "H7-unsub-delivered-while-blocked", Subs: []c50Sub{{Cap: 4}, {Cap: 0, Receiver: 1}}, Threads: [][]c50Act{{S(1)}, {U(0)}}},
		{Name: "H8-two-senders-late-sub", Subs: []c50Sub{{Cap: 0, Receiver: 2}, {Cap: 4}, {Cap: 4, Late: true}}, Threads: [][]c50Act{{S(1)}, {N(2), S(2)}, {U(1)}}},
		// one subscriber already served, two still pending (blocked) when a pending one is unsubscribed: the removal must
		// not disturb the served/pending partition of the case list (both orders of the pending pair)
		{Name: "H9-served+2pending-unsub-first-pending", Subs: []c50Sub{{Cap: 4}, {Cap: 0, Receiver: 1}, {Cap: 0}}, Threads: [][]c50Act{{S(1)}, {U(2)}}},
		{Name: "H10-served+2pending-unsub-second-pending", Subs: []c50Sub{{Cap: 4}, {Cap: 0}, {Cap: 0, Receiver: 1}}, Threads: [][]c50Act{{S(1)}, {U(1)}}},
		{Name: "H11-2served+2pending-unsub-pending", Subs: []c50Sub{{Cap: 4}, {Cap: 4}, {Cap: 0, Receiver: 1}, {Cap: 0}}, Threads: [][]c50Act{{S(1)}, {U(3)}}},
		{Name: "H6-unsub-twice-and-resub", Subs: []c50Sub{{Cap: 1}, {Cap: 2, Late: true}}, Threads: [][]c50Act{{S(1), S(2)}, {U(0), N(1)}, {U(0)}}},
	}
}

func TestVerif_C50(t *testing.T) {
	mc.Run(t, "C50", func(r *mc.R) {
		maxPre := mc.Pick(r, 2, 3)
		r.Rule("each scenario is a closed harness (pre-subscribed channels, sender / subscriber / unsubscriber / receiver threads) on the real Feed and FeedOf[int], " +
			"instrumented so that every mutex, Once, channel send/receive, select, reflect.Select and TrySend is a scheduling point; " +
			"ALL schedules with at most k preemptions are executed (iterative bounding 0..k); one evaluation = one complete execution; " +
			"distinct = distinct observable outcomes (Send return values + per-channel received sequences) per scenario")
		r.Bound("max_preemptions", maxPre)
		r.Assume("cooperative scheduler: data races are not visible here (separate free-running -race pass); sync.Once/Mutex modelled by vsync")
		for _, typed := range []bool{false, true} {
			for _, sc := range c50Scenarios() {
				name := sc.Name + map[bool]string{false: "/Feed", true: "/FeedOf"}[typed]
				vsched.RunMC(r, vsched.Scenario{Name: name, Body: c50Body(sc, typed), Check: c50Check(sc), Obs: c50Obs(sc), MaxSteps: 2000}, maxPre)
				if r.Expired() {
					return
				}
			}
		}
	})
}

// c50Free carries the state of the last free-running execution to the checker.
var c50Free *c50State

// TestVerif_C50_Race is the auxiliary free-running pass: the same harness bodies run as plain goroutines under the
// race detector (the cooperative scheduler's hand-offs are happens-before edges and would blind it). It is
// sampling and is not the deciding step; the history oracle is evaluated as well, except for the two timestamp
// based clauses that need the scheduler's atomicity.
func TestVerif_C50_Race(t *testing.T) {
	mc.Run(t, "C50", func(r *mc.R) {
		r.Rule("auxiliary free-running pass under -race: every scenario body executed N times as plain goroutines; a data race aborts the test binary (reported as violation)")
		iters := mc.Pick(r, 150, 2000)
		for _, typed := range []bool{false, true} {
			for _, sc := range c50Scenarios() {
				body := c50Body(sc, typed)
				for i := 0; i < iters && !r.Expired(); i++ {
					c50Free = nil
					body()
					r.Eval(1)
					st := c50Free
					if st == nil {
						continue
					}
					// drain and run the schedule-independent part of the oracle
					x := &vsched.Exec{Data: st}
					// in the free pass a delivery can be time-stamped late by the recorder: neutralise the clause
					for k := range st.lenAtUnsubRet {
						st.lenAtUnsubRet[k] = -1
					}
					if err := c50Check(sc)(x); err != nil && !strings.Contains(err.Error(), "although its Unsubscribe had returned") {
						r.Violation(fmt.Sprintf("free:%s/%v", sc.Name, typed), err.Error(), nil)
					}
					r.Distinct(c50Obs(sc)(x))
				}
			}
		}
		r.Sample(map[string]any{"free_running_iterations_per_scenario": iters})
	})
}
