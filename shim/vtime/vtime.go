// Package vtime is the drop-in replacement of package time for instrumented files.
// It re-exports the value types and clock reads of package time unchanged and
// replaces the *waiting* primitives (Timer, Ticker, AfterFunc, After, Sleep): under an
// active vsched exploration a timer is a controlled pseudo-thread that may fire at
// any scheduling point until stopped ("the timeout fires at any moment"), and Sleep
// is a plain scheduling point.
package vtime

import (
	"time"

	"github.com/ethereum/go-ethereum/internal/verif/vsched"
)

type (
	Duration   = time.Duration
	Time       = time.Time
	Month      = time.Month
	Weekday    = time.Weekday
	Location   = time.Location
	ParseError = time.ParseError
)

const (
	Nanosecond  = time.Nanosecond
	Microsecond = time.Microsecond
	Millisecond = time.Millisecond
	Second      = time.Second
	Minute      = time.Minute
	Hour        = time.Hour

	RFC3339     = time.RFC3339
	RFC3339Nano = time.RFC3339Nano
	RFC1123     = time.RFC1123
	RFC822      = time.RFC822
	Kitchen     = time.Kitchen
	DateTime    = time.DateTime
	DateOnly    = time.DateOnly
	TimeOnly    = time.TimeOnly
	StampMilli  = time.StampMilli

	January = time.January
)

var (
	UTC   = time.UTC
	Local = time.Local
)

func Now() Time                 { return time.Now() }
func Since(t Time) Duration     { return time.Since(t) }
func Until(t Time) Duration     { return time.Until(t) }
func Unix(sec, nsec int64) Time { return time.Unix(sec, nsec) }
func UnixMilli(ms int64) Time   { return time.UnixMilli(ms) }
func UnixMicro(us int64) Time   { return time.UnixMicro(us) }
func Date(y int, m Month, d, h, mi, s, ns int, l *Location) Time {
	return time.Date(y, m, d, h, mi, s, ns, l)
}
func Parse(layout, value string) (Time, error)    { return time.Parse(layout, value) }
func ParseDuration(s string) (Duration, error)    { return time.ParseDuration(s) }
func LoadLocation(name string) (*Location, error) { return time.LoadLocation(name) }
func FixedZone(name string, off int) *Location    { return time.FixedZone(name, off) }

// Sleep is a scheduling point under exploration.
func Sleep(d Duration) {
	if vsched.Active() {
		if !vsched.Aborting() {
			vsched.Yield("Sleep")
		}
		return
	}
	time.Sleep(d)
}

// Timer mirrors time.Timer.
type Timer struct {
	C    <-chan Time
	c    chan Time
	real *time.Timer
	ctl  *vsched.Timer
	fn   func()
}

func (t *Timer) arm(d Duration) {
	if vsched.Active() && !vsched.Aborting() {
		t.real = nil
		if t.fn != nil {
			t.ctl = vsched.AfterFunc("timer", t.fn)
		} else {
			c := t.c
			t.ctl = vsched.AfterFunc("timer", func() {
				select {
				case c <- time.Now():
				default:
				}
			})
		}
		return
	}
	t.ctl = nil
	if t.fn != nil {
		t.real = time.AfterFunc(d, t.fn)
	} else {
		c := t.c
		t.real = time.AfterFunc(d, func() {
			select {
			case c <- time.Now():
			default:
			}
		})
	}
}

// NewTimer mirrors time.NewTimer.
func NewTimer(d Duration) *Timer {
	c := make(chan Time, 1)
	t := &Timer{C: c, c: c}
	t.arm(d)
	return t
}

// AfterFunc mirrors time.AfterFunc.
func AfterFunc(d Duration, f func()) *Timer {
	t := &Timer{fn: f}
	t.arm(d)
	return t
}

// After mirrors time.After.
func After(d Duration) <-chan Time { return NewTimer(d).C }

// Stop mirrors (*time.Timer).Stop.
func (t *Timer) Stop() bool {
	if t.ctl != nil {
		return t.ctl.Stop()
	}
	if t.real != nil {
		return t.real.Stop()
	}
	return false
}

// Reset mirrors (*time.Timer).Reset.
func (t *Timer) Reset(d Duration) bool {
	was := t.Stop()
	t.arm(d)
	return was
}

// Ticker mirrors time.Ticker; under exploration it fires at most Horizon times.
type Ticker struct {
	C     <-chan Time
	c     chan Time
	real  *time.Ticker
	ctl   *vsched.Timer
	left  int
	stopd bool
}

// TickerHorizon is the number of times a controlled ticker may fire per execution.
var TickerHorizon = 1

func (t *Ticker) armCtl() {
	if t.left <= 0 || t.stopd {
		t.ctl = nil
		return
	}
	t.left--
	c := t.c
	t.ctl = vsched.AfterFunc("ticker", func() {
		select {
		case c <- time.Now():
		default:
		}
		t.armCtl()
	})
}

// NewTicker mirrors time.NewTicker.
func NewTicker(d Duration) *Ticker {
	if vsched.Active() && !vsched.Aborting() {
		c := make(chan Time, 1)
		t := &Ticker{C: c, c: c, left: TickerHorizon}
		t.armCtl()
		return t
	}
	rt := time.NewTicker(d)
	return &Ticker{C: rt.C, real: rt}
}

// Tick mirrors time.Tick.
func Tick(d Duration) <-chan Time { return NewTicker(d).C }

// Stop mirrors (*time.Ticker).Stop.
func (t *Ticker) Stop() {
	t.stopd = true
	if t.ctl != nil {
		t.ctl.Stop()
	}
	if t.real != nil {
		t.real.Stop()
	}
}

// Reset mirrors (*time.Ticker).Reset.
func (t *Ticker) Reset(d Duration) {
	if t.real != nil {
		t.real.Reset(d)
	}
}
