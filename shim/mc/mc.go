// Package mc is the reporting / bounded-exhaustive exploration support used by
// every /verif harness. It is injected into the go-ethereum module as the virtual
// package github.com/ethereum/go-ethereum/internal/verif/mc through `go test -overlay`.
//
// A harness is a Go test `TestVerif_Cnn...` that calls mc.Run. Inside it
// enumerates a bounded space completely, calling r.Case(...) for each element
// (or r.Eval/r.Violation directly). The run result (coverage counters, samples,
// violations with replay descriptors) is written as JSON to $VERIF_OUT, from which
// /verif/run.py builds the evidence file and the VIOLATION lines.
package mc

import (
	"encoding/json"
	"fmt"
	"hash/fnv"
	"os"
	"runtime"
	"runtime/debug"
	"sort"
	"strconv"
	"strings"
	"sync"
	"sync/atomic"
	"testing"
	"time"
)

// Violation is one counterexample. Key identifies the failing case stably (it is
// what known_findings.json matches on); Replay is the descriptor from which the
// harness can re-execute exactly that case (VERIF_REPLAY).
type Violation struct {
	Key    string `json:"key"`
	Desc   string `json:"desc"`
	Replay any    `json:"replay"`
}

type result struct {
	Property    string           `json:"property"`
	Test        string           `json:"test"`
	Tier        string           `json:"tier"`
	Seed        int64            `json:"seed"`
	Evaluations int64            `json:"evaluations"`
	Distinct    int64            `json:"distinct_nontrivial"`
	DistinctCap bool             `json:"distinct_capped,omitempty"`
	States      int64            `json:"states,omitempty"`
	Transitions int64            `json:"transitions,omitempty"`
	Traces      int64            `json:"traces_validated_against_impl,omitempty"`
	Rule        string           `json:"rule"`
	Samples     []any            `json:"samples"`
	Exhaustive  bool             `json:"exhaustive"`
	Bounds      map[string]any   `json:"bounds,omitempty"`
	Outcomes    map[string]int64 `json:"outcomes,omitempty"`
	Assumptions []string         `json:"assumptions,omitempty"`
	Violations  []Violation      `json:"violations"`
	HarnessErrs []string         `json:"harness_errors,omitempty"`
	NViolations int64            `json:"n_violations"`
	WallS       float64          `json:"wall_s"`
	Replayed    bool             `json:"replayed,omitempty"`
	ReplayHit   int64            `json:"replay_hit,omitempty"`
}

// R is the per-harness run context. All methods are safe for concurrent use.
type R struct {
	T           *testing.T
	res         result
	mu          sync.Mutex
	start       time.Time
	deadline    time.Time
	expired     atomic.Bool
	evals       atomic.Int64
	states      atomic.Int64
	trans       atomic.Int64
	traces      atomic.Int64
	nviol       atomic.Int64
	dmu         [64]sync.Mutex
	dset        [64]map[uint64]struct{}
	dcount      atomic.Int64
	maxSamples  int
	sampleEvery int64
	replay      []byte // canonical JSON of the case to replay, nil otherwise
	replayHit   atomic.Int64
}

const maxDistinct = 8_000_000
const maxViolationsKept = 20

// Tier returns "quick" or "thorough".
func Tier() string {
	if os.Getenv("VERIF_TIER") == "thorough" {
		return "thorough"
	}
	return "quick"
}

// Run executes body as the harness for property id and writes the result file.
func Run(t *testing.T, id string, body func(r *R)) {
	r := &R{T: t, start: time.Now(), maxSamples: 6, sampleEvery: 1}
	r.res.Property = id
	r.res.Test = t.Name()
	r.res.Tier = Tier()
	r.res.Exhaustive = true
	r.res.Bounds = map[string]any{}
	r.res.Outcomes = map[string]int64{}
	r.res.Samples = []any{}
	r.res.Violations = []Violation{}
	if s := os.Getenv("VERIF_SEED"); s != "" {
		r.res.Seed, _ = strconv.ParseInt(s, 10, 64)
	}
	budget := 60 * time.Second
	if r.res.Tier == "thorough" {
		budget = 15 * time.Minute
	}
	if s := os.Getenv("VERIF_BUDGET_S"); s != "" {
		if f, err := strconv.ParseFloat(s, 64); err == nil && f > 0 {
			budget = time.Duration(f * float64(time.Second))
		}
	}
	r.deadline = r.start.Add(budget)
	for i := range r.dset {
		r.dset[i] = map[uint64]struct{}{}
	}
	if p := os.Getenv("VERIF_REPLAY"); p != "" {
		raw, err := os.ReadFile(p)
		if err != nil {
			t.Fatalf("verif: cannot read replay file: %v", err)
		}
		var f struct {
			Test   string          `json:"test"`
			Replay json.RawMessage `json:"replay"`
		}
		if err := json.Unmarshal(raw, &f); err != nil {
			t.Fatalf("verif: bad replay file: %v", err)
		}
		if f.Test != "" && f.Test != t.Name() {
			t.Skipf("verif: replay file is for %s", f.Test)
		}
		r.replay = canon(f.Replay)
		r.res.Replayed = true
		r.deadline = r.start.Add(24 * time.Hour)
	}
	func() {
		defer func() {
			if p := recover(); p != nil {
				r.Violation("harness-panic", fmt.Sprintf("panic escaped the harness body: %v\n%s", p, debug.Stack()), nil)
			}
		}()
		body(r)
	}()
	r.finish()
}

func canon(raw []byte) []byte {
	var v any
	if json.Unmarshal(raw, &v) != nil {
		return raw
	}
	b, _ := json.Marshal(v)
	return b
}

func (r *R) finish() {
	r.mu.Lock()
	defer r.mu.Unlock()
	r.res.Evaluations = r.evals.Load()
	r.res.Distinct = r.dcount.Load()
	r.res.States = r.states.Load()
	r.res.Transitions = r.trans.Load()
	r.res.Traces = r.traces.Load()
	r.res.NViolations = r.nviol.Load()
	r.res.WallS = time.Since(r.start).Seconds()
	r.res.ReplayHit = r.replayHit.Load()
	if r.expired.Load() {
		r.res.Exhaustive = false
	}
	out := os.Getenv("VERIF_OUT")
	b, err := json.MarshalIndent(&r.res, "", " ")
	if err != nil {
		r.T.Fatalf("verif: cannot marshal result: %v", err)
	}
	if out != "" {
		if err := os.WriteFile(out, b, 0o644); err != nil {
			r.T.Fatalf("verif: cannot write result: %v", err)
		}
	}
	r.T.Logf("verif %s %s: evaluations=%d distinct=%d states=%d transitions=%d violations=%d exhaustive=%v wall=%.1fs",
		r.res.Property, r.res.Test, r.res.Evaluations, r.res.Distinct, r.res.States, r.res.Transitions, r.res.NViolations, r.res.Exhaustive, r.res.WallS)
	if r.res.NViolations > 0 {
		for _, v := range r.res.Violations {
			r.T.Logf("VIOLATION %s: %s", v.Key, v.Desc)
		}
		if out == "" {
			r.T.Fail()
		}
	}
	if r.replay != nil && r.replayHit.Load() == 0 {
		r.T.Logf("verif: replay case was not reached by the enumeration")
	}
}

// Quick reports whether this is the quick tier.
func (r *R) Quick() bool { return r.res.Tier == "quick" }

// Thorough reports whether this is the thorough tier.
func (r *R) Thorough() bool { return r.res.Tier == "thorough" }

// Pick returns q in the quick tier and th in the thorough tier.
func Pick[T any](r *R, q, th T) T {
	if r.Quick() {
		return q
	}
	return th
}

// Seed is VERIF_SEED; it may only permute exploration order.
func (r *R) Seed() int64 { return r.res.Seed }

// Replaying reports whether a single case is being replayed.
func (r *R) Replaying() bool { return r.replay != nil }

// Expired reports whether the internal time budget is used up. A harness must
// poll it between chunks of work, stop, and the run is then reported as
// exhaustive:false (never as a violation).
func (r *R) Expired() bool {
	if r.expired.Load() {
		return true
	}
	if time.Now().After(r.deadline) {
		r.expired.Store(true)
		return true
	}
	return false
}

// Remaining returns the time left in the budget.
func (r *R) Remaining() time.Duration { return time.Until(r.deadline) }

// NotExhaustive marks the run as having hit a cap.
func (r *R) NotExhaustive(why string) {
	r.expired.Store(true)
	r.mu.Lock()
	r.res.Bounds["cap_hit"] = why
	r.mu.Unlock()
}

// Rule sets the description of how cases are enumerated and what counts as distinct/non-trivial.
func (r *R) Rule(s string) { r.mu.Lock(); r.res.Rule = s; r.mu.Unlock() }

// Assume records an assumption / trusted-base statement.
func (r *R) Assume(s string) {
	r.mu.Lock()
	r.res.Assumptions = append(r.res.Assumptions, s)
	r.mu.Unlock()
}

// Bound records a completed bound (depth, preemptions, sizes...).
func (r *R) Bound(k string, v any) { r.mu.Lock(); r.res.Bounds[k] = v; r.mu.Unlock() }

// Outcome counts an observed outcome class (to spot vacuous exploration).
func (r *R) Outcome(k string) { r.mu.Lock(); r.res.Outcomes[k]++; r.mu.Unlock() }

// OutcomeN adds n to an outcome class.
func (r *R) OutcomeN(k string, n int64) { r.mu.Lock(); r.res.Outcomes[k] += n; r.mu.Unlock() }

// Eval counts n executed cases.
func (r *R) Eval(n int64) { r.evals.Add(n) }

// State / Transition / Trace count explicit-state search progress.
func (r *R) State(n int64)      { r.states.Add(n) }
func (r *R) Transition(n int64) { r.trans.Add(n) }
func (r *R) Trace(n int64)      { r.traces.Add(n) }

// Distinct records a distinct non-trivial case by key; returns true when new.
func (r *R) Distinct(key string) bool {
	h := fnv.New64a()
	h.Write([]byte(key))
	return r.DistinctHash(h.Sum64())
}

// DistinctHash is Distinct for a precomputed 64-bit hash.
func (r *R) DistinctHash(x uint64) bool {
	if r.dcount.Load() >= maxDistinct {
		r.mu.Lock()
		r.res.DistinctCap = true
		r.mu.Unlock()
		return false
	}
	i := x & 63
	r.dmu[i].Lock()
	_, ok := r.dset[i][x]
	if !ok {
		r.dset[i][x] = struct{}{}
	}
	r.dmu[i].Unlock()
	if !ok {
		r.dcount.Add(1)
	}
	return !ok
}

// Sample stores an example of an explored case (at most a handful are kept,
// spread geometrically over the run).
func (r *R) Sample(v any) {
	n := r.evals.Load()
	r.mu.Lock()
	defer r.mu.Unlock()
	if len(r.res.Samples) < r.maxSamples {
		r.res.Samples = append(r.res.Samples, v)
		return
	}
	if n >= r.sampleEvery*4 && len(r.res.Samples) < 24 {
		r.sampleEvery = n
		r.res.Samples = append(r.res.Samples, v)
	}
}

// Violation records a counterexample.
func (r *R) Violation(key, desc string, replay any) {
	r.nviol.Add(1)
	r.mu.Lock()
	defer r.mu.Unlock()
	for _, v := range r.res.Violations {
		if v.Key == key {
			return
		}
	}
	if len(r.res.Violations) < maxViolationsKept {
		if len(desc) > 4000 {
			desc = desc[:4000] + "…"
		}
		r.res.Violations = append(r.res.Violations, Violation{Key: key, Desc: desc, Replay: replay})
	}
}

// HarnessError records an infrastructure problem (replay divergence, watchdog,
// non-reproducible failure). It is never a verdict: run.py exits 2.
func (r *R) HarnessError(msg string) {
	r.expired.Store(true)
	r.mu.Lock()
	if len(r.res.HarnessErrs) < 10 {
		r.res.HarnessErrs = append(r.res.HarnessErrs, msg)
	}
	r.mu.Unlock()
}

// ReplayDescriptor returns the canonical JSON of the case being replayed (nil if not replaying).
func (r *R) ReplayDescriptor() []byte { return r.replay }

// ReplayHit tells the driver that the replay descriptor was recognised and executed.
func (r *R) ReplayHit() { r.replayHit.Add(1) }

// Violations returns the number of violations so far.
func (r *R) Violations() int64 { return r.nviol.Load() }

// Case runs one enumerated case. c is a JSON-serialisable descriptor of the case
// (it is the replay artefact and the sample); fn returns a non-nil error when the
// property is violated on this case. Panics inside fn are violations. In replay
// mode only the case whose descriptor equals the replay file's is executed.
func (r *R) Case(c any, fn func() error) {
	if r.replay != nil {
		b, _ := json.Marshal(c)
		if string(canon(b)) != string(r.replay) {
			return
		}
		r.replayHit.Add(1)
	}
	r.evals.Add(1)
	err := Safely(fn)
	if err != nil {
		b, _ := json.Marshal(c)
		r.Violation(string(b), err.Error(), c)
	}
}

// Safely runs fn converting a panic into an error that carries the stack.
func Safely(fn func() error) (err error) {
	defer func() {
		if p := recover(); p != nil {
			err = fmt.Errorf("panic: %v\n%s", p, debug.Stack())
		}
	}()
	return fn()
}

// Parallel runs fn(i) for i in [0,n) on min(GOMAXPROCS, n) worker goroutines,
// stopping early (and marking the run non-exhaustive) when the budget expires.
// It returns the number of indices completed.
func (r *R) Parallel(n int, fn func(i int)) int {
	workers := runtime.GOMAXPROCS(0)
	if s := os.Getenv("VERIF_WORKERS"); s != "" {
		if w, err := strconv.Atoi(s); err == nil && w > 0 {
			workers = w
		}
	}
	if workers > n {
		workers = n
	}
	var next atomic.Int64
	var done atomic.Int64
	var wg sync.WaitGroup
	for w := 0; w < workers; w++ {
		wg.Add(1)
		go func() {
			defer wg.Done()
			for {
				i := int(next.Add(1) - 1)
				if i >= n || r.Expired() {
					return
				}
				func() {
					defer func() {
						if p := recover(); p != nil {
							r.Violation(fmt.Sprintf("panic-in-shard-%d", i), fmt.Sprintf("panic: %v\n%s", p, debug.Stack()), map[string]any{"shard": i})
						}
					}()
					fn(i)
				}()
				done.Add(1)
			}
		}()
	}
	wg.Wait()
	return int(done.Load())
}

// ---------------------------------------------------------------------------
// Explicit-state / bounded-exhaustive sequence exploration (engine E1).

// Sys is a live system under exploration together with its reference model.
// Apply executes op number `op` (index into the alphabet) on the real code and
// on the model and returns an error if an observable disagrees / an invariant
// fails. Enabled reports whether op is legal in the current state (API
// contract); Key, if it returns non-empty, is the canonical key used for
// de-duplication: it must contain the model state and a white-box fingerprint of
// the implementation fields the property's mechanism uses.
type Sys interface {
	Enabled(op int) bool
	Apply(op int) error
	Key() string
}

// Config of an exploration.
type Config struct {
	Name      string
	Ops       []string   // names of the alphabet, simplest first
	Depth     int        // maximal length of operation sequences
	New       func() Sys // fresh system (initial state); live objects cannot be cloned, so states are re-built by replay
	MaxStates int64      // cap on distinct states (0 = none); hitting it => exhaustive:false
	NoDedup   bool       // plain depth-bounded enumeration even if Key is non-empty
	Close     func(Sys)  // optional cleanup
}

// Explore runs breadth-first search over operation sequences. A state is the
// operation list that reaches it; successors are computed by replaying the list
// on a fresh instance and applying one more operation. Every transition is
// executed on the real implementation and checked (the exploration is its own
// conformance check), so traces_validated_against_impl == transitions.
func (r *R) Explore(cfg Config) {
	type node struct{ ops []int }
	if r.replay != nil {
		var d struct {
			Explore string   `json:"explore"`
			Ops     []string `json:"ops"`
		}
		if json.Unmarshal(r.replay, &d) != nil || d.Explore != cfg.Name {
			return
		}
		r.replayHit.Add(1)
		s := cfg.New()
		err := Safely(func() error {
			for _, name := range d.Ops {
				op := -1
				for i, n := range cfg.Ops {
					if n == name {
						op = i
					}
				}
				if op < 0 {
					return fmt.Errorf("replay: unknown op %q", name)
				}
				if !s.Enabled(op) {
					return fmt.Errorf("replay: op %q not enabled", name)
				}
				r.Eval(1)
				if e := s.Apply(op); e != nil {
					return fmt.Errorf("at op %s: %v", name, e)
				}
			}
			return nil
		})
		if err != nil {
			r.Violation(cfg.Name+":"+strings.Join(d.Ops, ";"), err.Error(), map[string]any{"explore": cfg.Name, "ops": d.Ops})
		}
		return
	}
	frontier := []node{{}}
	seen := map[string]struct{}{}
	var smu sync.Mutex
	// initial state
	{
		s := cfg.New()
		if k := s.Key(); k != "" && !cfg.NoDedup {
			seen[k] = struct{}{}
		}
		if cfg.Close != nil {
			cfg.Close(s)
		}
		r.State(1)
	}
	completed := 0
	for depth := 1; depth <= cfg.Depth && len(frontier) > 0; depth++ {
		var next []node
		var nmu sync.Mutex
		capped := false
		done := r.Parallel(len(frontier), func(i int) {
			base := frontier[i].ops
			for op := range cfg.Ops {
				if r.Expired() {
					return
				}
				s := cfg.New()
				ok := true
				var err error
				// replay prefix (already validated when first explored)
				err = Safely(func() error {
					for _, o := range base {
						if e := s.Apply(o); e != nil {
							return fmt.Errorf("replay divergence at prefix op %s: %v", cfg.Ops[o], e)
						}
					}
					return nil
				})
				if err != nil {
					r.Violation(cfg.Name+":replay:"+fmtOps(cfg.Ops, base), err.Error(), map[string]any{"explore": cfg.Name, "ops": names(cfg.Ops, base)})
					ok = false
				}
				if ok && s.Enabled(op) {
					seq := append(append([]int{}, base...), op)
					r.Transition(1)
					r.Trace(1)
					r.Eval(1)
					err = Safely(func() error { return s.Apply(op) })
					if err != nil {
						r.Violation(cfg.Name+":"+fmtOps(cfg.Ops, seq), err.Error(), map[string]any{"explore": cfg.Name, "ops": names(cfg.Ops, seq)})
					} else {
						k := s.Key()
						isNew := true
						if k != "" && !cfg.NoDedup {
							smu.Lock()
							if _, dup := seen[k]; dup {
								isNew = false
							} else {
								seen[k] = struct{}{}
							}
							smu.Unlock()
						}
						if isNew {
							r.State(1)
							r.DistinctHash(hash64(k + "|" + fmtOps(cfg.Ops, seq)))
							if depth < cfg.Depth {
								nmu.Lock()
								next = append(next, node{seq})
								nmu.Unlock()
							}
							if n := r.states.Load(); n <= 4 || n%997 == 1 {
								r.Sample(map[string]any{"explore": cfg.Name, "ops": names(cfg.Ops, seq)})
							}
						}
					}
				}
				if cfg.Close != nil {
					cfg.Close(s)
				}
				if cfg.MaxStates > 0 && r.states.Load() >= cfg.MaxStates {
					capped = true
					return
				}
			}
		})
		if capped {
			r.NotExhaustive(fmt.Sprintf("%s: MaxStates %d reached at depth %d", cfg.Name, cfg.MaxStates, depth))
			break
		}
		if done < len(frontier) || r.Expired() {
			break
		}
		completed = depth
		// deterministic order of the next frontier (shortest/simplest first)
		sort.Slice(next, func(a, b int) bool { return lessOps(next[a].ops, next[b].ops) })
		frontier = next
	}
	r.Bound(cfg.Name+".depth_completed", completed)
	r.Bound(cfg.Name+".depth_requested", cfg.Depth)
	r.Bound(cfg.Name+".alphabet", len(cfg.Ops))
}

func lessOps(a, b []int) bool {
	for i := 0; i < len(a) && i < len(b); i++ {
		if a[i] != b[i] {
			return a[i] < b[i]
		}
	}
	return len(a) < len(b)
}

func names(ops []string, seq []int) []string {
	out := make([]string, len(seq))
	for i, o := range seq {
		out[i] = ops[o]
	}
	return out
}

func fmtOps(ops []string, seq []int) string {
	s := ""
	for i, o := range seq {
		if i > 0 {
			s += ";"
		}
		s += ops[o]
	}
	return s
}

func hash64(s string) uint64 {
	h := fnv.New64a()
	h.Write([]byte(s))
	return h.Sum64()
}

// Hash64 exposes the FNV-1a hash used for distinct counting.
func Hash64(s string) uint64 { return hash64(s) }
