// Package vflock stands in for github.com/gofrs/flock in files instrumented by
// tools/vinstr ("github.com/gofrs/flock" -> "vflock"). For paths inside a vos
// virtual file system the advisory lock is kept in that FS (so it vanishes with
// the simulated process death: a materialised crash image holds no locks); all
// other paths are delegated to the real library.
package vflock

import (
	"github.com/ethereum/go-ethereum/internal/verif/vos"
	"github.com/gofrs/flock"
)

// Flock mirrors flock.Flock.
type Flock struct {
	path string
	real *flock.Flock
	l, r bool
}

// Option mirrors flock.Option.
type Option = flock.Option

// New returns a new lock handle for path.
func New(path string, opts ...Option) *Flock {
	if vos.Lookup(path) != nil {
		return &Flock{path: path}
	}
	return &Flock{path: path, real: flock.New(path, opts...)}
}

// NewFlock is the deprecated alias of New.
func NewFlock(path string) *Flock { return New(path) }

func (f *Flock) Path() string { return f.path }

func (f *Flock) String() string { return f.path }

func (f *Flock) Locked() bool {
	if f.real != nil {
		return f.real.Locked()
	}
	return f.l
}

func (f *Flock) RLocked() bool {
	if f.real != nil {
		return f.real.RLocked()
	}
	return f.r
}

func (f *Flock) TryLock() (bool, error) {
	if f.real != nil {
		return f.real.TryLock()
	}
	if f.l {
		return true, nil
	}
	fs := vos.Lookup(f.path)
	if fs == nil {
		return false, vos.ErrNotExist
	}
	if fs.TryLock(f.path, true) {
		f.l = true
		return true, nil
	}
	return false, nil
}

func (f *Flock) TryRLock() (bool, error) {
	if f.real != nil {
		return f.real.TryRLock()
	}
	if f.r {
		return true, nil
	}
	fs := vos.Lookup(f.path)
	if fs == nil {
		return false, vos.ErrNotExist
	}
	if fs.TryLock(f.path, false) {
		f.r = true
		return true, nil
	}
	return false, nil
}

func (f *Flock) Lock() error {
	if f.real != nil {
		return f.real.Lock()
	}
	ok, err := f.TryLock()
	if err == nil && !ok {
		panic("vflock: blocking Lock on a held virtual lock")
	}
	return err
}

func (f *Flock) RLock() error {
	if f.real != nil {
		return f.real.RLock()
	}
	ok, err := f.TryRLock()
	if err == nil && !ok {
		panic("vflock: blocking RLock on a held virtual lock")
	}
	return err
}

func (f *Flock) Unlock() error {
	if f.real != nil {
		return f.real.Unlock()
	}
	fs := vos.Lookup(f.path)
	if fs != nil {
		if f.l {
			fs.Unlock(f.path, true)
		}
		if f.r {
			fs.Unlock(f.path, false)
		}
	}
	f.l, f.r = false, false
	return nil
}

func (f *Flock) Close() error { return f.Unlock() }
