package refevm

import (
	"fmt"
	"math/big"

	"github.com/ethereum/go-ethereum/common"
	"github.com/ethereum/go-ethereum/crypto"
)

// Opcode subset (everything else is an invalid instruction for the reference;
// programs using other *defined* opcodes must not be generated):
//
//	0x00-0x0b arithmetic, 0x10-0x1d comparison/bitwise/shift, 0x1e CLZ (Osaka),
//	0x20 KECCAK256, 0x30-0x3f environment (incl. EXTCODE*, RETURNDATA*),
//	0x40-0x4a block context, 0x50-0x5f stack/memory/storage/flow (incl. TLOAD,
//	TSTORE, MCOPY, PUSH0), PUSH1-32, DUP1-16, SWAP1-16, LOG0-4, CREATE, CALL,
//	CALLCODE, RETURN, DELEGATECALL, CREATE2, STATICCALL, REVERT, INVALID,
//	SELFDESTRUCT (EIP-6780).
//
// EIP-7702 (Prague+): calls to an account whose code is a delegation designator run the target's code (one level).
// Not modelled: precompile execution (Unsupported is set).

var (
	two256 = new(big.Int).Lsh(big.NewInt(1), 256)
	two255 = new(big.Int).Lsh(big.NewInt(1), 255)
	big32  = big.NewInt(32)
)

const (
	gZero          = 0
	gJumpdest      = 1
	gBase          = 2
	gVeryLow       = 3
	gLow           = 5
	gMid           = 8
	gHigh          = 10
	gExp           = 10
	gExpByte       = 50
	gKeccak        = 30
	gKeccakWord    = 6
	gCopyWord      = 3
	gMemory        = 3
	gBlockhash     = 20
	gWarmAccess    = 100  // EIP-2929
	gColdAccount   = 2600 // EIP-2929
	gColdSload     = 2100 // EIP-2929
	gSset          = 20000
	gSreset        = 5000 - gColdSload // EIP-2929: 2900
	rSclear        = gSreset + 1900    // EIP-3529: 4800
	gCallStipend   = 2300
	gCallValue     = 9000
	gNewAccount    = 25000
	gLog           = 375
	gLogTopic      = 375
	gLogData       = 8
	gCreate        = 32000
	gCodeDeposit   = 200
	gSelfdestruct  = 5000
	callDepthLimit = 1024
	stackLimit     = 1024
)

// haltErr is an exceptional halt: the frame's state changes are rolled back and
// all its gas is consumed.
type haltErr struct{ why string }

func (h haltErr) Error() string { return "exceptional halt: " + h.why }

type revertErr struct{}

func (revertErr) Error() string { return "revert" }

type message struct {
	caller   common.Address
	target   common.Address // account whose storage/balance context is used
	codeAddr common.Address
	code     []byte
	value    *big.Int
	transfer bool // move value from caller to target
	data     []byte
	gas      uint64
	depth    int
	static   bool
	create   bool
}

type outcome struct {
	gasLeft uint64
	output  []byte
	err     error // nil, revertErr, haltErr
}

type machine struct {
	env         *Env
	st          *txState
	orig        World // state at the start of the transaction (SSTORE "original value")
	origin      common.Address
	gasPrice    *big.Int
	blobHashes  []common.Hash
	unsupported string
}

// process executes a message (Theta / Lambda of the Yellow Paper): snapshot, value
// transfer, code execution, roll back on failure, code deposit for creations.
func (vm *machine) process(m *message) *outcome {
	snap := vm.st.copy()
	if m.create {
		t := vm.st.mut(m.target)
		t.Storage = map[common.Hash]common.Hash{}
		t.Nonce++ // EIP-161: new contracts start with nonce 1
		vm.st.created[m.target] = true
	}
	if m.transfer && m.value.Sign() > 0 {
		from := vm.st.mut(m.caller)
		from.Balance.Sub(from.Balance, m.value)
		to := vm.st.mut(m.target)
		to.Balance.Add(to.Balance, m.value)
	}
	f := &frame{vm: vm, m: m, code: m.code, gas: m.gas}
	err := f.run()
	if err == nil && m.create {
		// code deposit (EIP-170 size limit, EIP-3541 0xEF prefix)
		code := f.out
		switch {
		case len(code) > 0 && code[0] == 0xef:
			err = haltErr{"EIP-3541 code prefix"}
		case f.gas < gCodeDeposit*uint64(len(code)):
			err = haltErr{"out of gas for code deposit"}
		case len(code) > maxCodeSize:
			err = haltErr{"EIP-170 code size"}
		default:
			f.gas -= gCodeDeposit * uint64(len(code))
			vm.st.mut(m.target).Code = append([]byte{}, code...)
		}
	}
	switch err.(type) {
	case nil:
		return &outcome{gasLeft: f.gas, output: f.out}
	case revertErr:
		vm.st = snap
		return &outcome{gasLeft: f.gas, output: f.out, err: err}
	default:
		vm.st = snap
		return &outcome{gasLeft: 0, err: err}
	}
}

type frame struct {
	vm    *machine
	m     *message
	code  []byte
	pc    int
	stack []*big.Int
	mem   []byte
	gas   uint64
	ret   []byte // return data of the last sub-call
	out   []byte
	dests map[int]bool
}

func (f *frame) halt(why string) { panic(haltErr{why}) }

func (f *frame) pop() *big.Int {
	if len(f.stack) == 0 {
		f.halt("stack underflow")
	}
	v := f.stack[len(f.stack)-1]
	f.stack = f.stack[:len(f.stack)-1]
	return v
}

func (f *frame) push(v *big.Int) {
	if len(f.stack) >= stackLimit {
		f.halt("stack overflow")
	}
	if v.Sign() < 0 || v.Cmp(two256) >= 0 {
		panic("refevm: value out of range pushed")
	}
	f.stack = append(f.stack, v)
}

func (f *frame) pushU(v uint64) { f.push(new(big.Int).SetUint64(v)) }
func (f *frame) pushBool(b bool) {
	if b {
		f.pushU(1)
	} else {
		f.pushU(0)
	}
}
func (f *frame) pushBytes(b []byte) { f.push(new(big.Int).SetBytes(b)) }

func (f *frame) popAddr() common.Address {
	return common.BigToAddress(f.pop()) // low 160 bits
}

func (f *frame) popHash() common.Hash { return common.BigToHash(f.pop()) }

func (f *frame) charge(n uint64) {
	if f.gas < n {
		f.halt("out of gas")
	}
	f.gas -= n
}

func (f *frame) chargeBig(n *big.Int) {
	if !n.IsUint64() {
		f.halt("out of gas")
	}
	f.charge(n.Uint64())
}

func wrap(x *big.Int) *big.Int { return x.Mod(x, two256) }

func signed(x *big.Int) *big.Int {
	if x.Cmp(two255) >= 0 {
		return new(big.Int).Sub(x, two256)
	}
	return new(big.Int).Set(x)
}

func memCostWords(w *big.Int) *big.Int {
	// Cmem(a) = Gmemory*a + floor(a^2/512)
	lin := new(big.Int).Mul(w, big.NewInt(gMemory))
	sq := new(big.Int).Mul(w, w)
	return lin.Add(lin, sq.Div(sq, big.NewInt(512)))
}

// expansion returns the gas for extending memory so that every (offset,size)
// range with size != 0 fits, and the new memory length in bytes.
func (f *frame) expansion(ranges ...*big.Int) (*big.Int, int) {
	maxEnd := new(big.Int)
	for i := 0; i < len(ranges); i += 2 {
		off, size := ranges[i], ranges[i+1]
		if size.Sign() == 0 {
			continue
		}
		end := new(big.Int).Add(off, size)
		if end.Cmp(maxEnd) > 0 {
			maxEnd = end
		}
	}
	cur := big.NewInt(int64(len(f.mem)))
	if maxEnd.Cmp(cur) <= 0 {
		return new(big.Int), len(f.mem)
	}
	w := new(big.Int).Add(maxEnd, big.NewInt(31))
	w.Div(w, big32)
	if w.BitLen() > 32 {
		// more than 2^32 words cost more than 2^55 gas: unaffordable under any gas limit considered
		f.halt("out of gas (memory)")
	}
	cost := memCostWords(w)
	cost.Sub(cost, memCostWords(new(big.Int).Div(cur, big32)))
	return cost, int(w.Int64()) * 32
}

func (f *frame) grow(n int) {
	if n > len(f.mem) {
		f.mem = append(f.mem, make([]byte, n-len(f.mem))...)
	}
}

func (f *frame) mread(off, size *big.Int) []byte {
	if size.Sign() == 0 {
		return nil
	}
	o, s := int(off.Int64()), int(size.Int64())
	return append([]byte{}, f.mem[o:o+s]...)
}

func (f *frame) mwrite(off *big.Int, data []byte) {
	if len(data) == 0 {
		return
	}
	copy(f.mem[int(off.Int64()):], data)
}

// slice returns src[off:off+size] zero-padded on the right (calldata / code reads).
func slicePad(src []byte, off, size *big.Int) []byte {
	n := int(size.Int64())
	out := make([]byte, n)
	if off.IsInt64() && off.Int64() < int64(len(src)) {
		copy(out, src[off.Int64():])
	}
	return out
}

func wordsBig(size *big.Int) *big.Int {
	w := new(big.Int).Add(size, big.NewInt(31))
	return w.Div(w, big32)
}

func (f *frame) accessAccount(a common.Address) uint64 {
	if f.vm.st.warmAddr[a] {
		return gWarmAccess
	}
	f.vm.st.warmAddr[a] = true
	return gColdAccount
}

func (f *frame) validDest(d *big.Int) bool {
	if f.dests == nil {
		f.dests = map[int]bool{}
		for i := 0; i < len(f.code); i++ {
			op := f.code[i]
			if op == 0x5b {
				f.dests[i] = true
			}
			if op >= 0x60 && op <= 0x7f {
				i += int(op) - 0x5f
			}
		}
	}
	return d.IsInt64() && f.dests[int(d.Int64())]
}

func (f *frame) run() (err error) {
	defer func() {
		if r := recover(); r != nil {
			switch e := r.(type) {
			case haltErr:
				err = e
			case revertErr:
				err = e
			default:
				panic(r)
			}
		}
	}()
	for {
		if f.pc >= len(f.code) {
			return nil // running off the code = STOP
		}
		if f.step(f.code[f.pc]) {
			return nil
		}
	}
}

// binary arithmetic helper
func (f *frame) bin(cost uint64, fn func(a, b *big.Int) *big.Int) {
	a, b := f.pop(), f.pop()
	f.charge(cost)
	f.push(wrap(fn(a, b)))
	f.pc++
}

func (f *frame) cmp(fn func(a, b *big.Int) bool) {
	a, b := f.pop(), f.pop()
	f.charge(gVeryLow)
	f.pushBool(fn(a, b))
	f.pc++
}

func (f *frame) env0(v *big.Int) {
	f.charge(gBase)
	f.push(v)
	f.pc++
}

// step executes one instruction; it returns true when the frame stops normally.
func (f *frame) step(op byte) bool {
	vm := f.vm
	env := vm.env
	self := f.m.target
	switch {
	case op >= 0x60 && op <= 0x7f: // PUSH1..PUSH32
		n := int(op) - 0x5f
		f.charge(gVeryLow)
		buf := make([]byte, n)
		if f.pc+1 < len(f.code) {
			copy(buf, f.code[f.pc+1:])
		}
		f.pushBytes(buf)
		f.pc += 1 + n
		return false
	case op >= 0x80 && op <= 0x8f: // DUP
		n := int(op) - 0x7f
		f.charge(gVeryLow)
		if len(f.stack) < n {
			f.halt("stack underflow")
		}
		f.push(new(big.Int).Set(f.stack[len(f.stack)-n]))
		f.pc++
		return false
	case op >= 0x90 && op <= 0x9f: // SWAP
		n := int(op) - 0x8f
		f.charge(gVeryLow)
		if len(f.stack) < n+1 {
			f.halt("stack underflow")
		}
		t := len(f.stack) - 1
		f.stack[t], f.stack[t-n] = f.stack[t-n], f.stack[t]
		f.pc++
		return false
	case op >= 0xa0 && op <= 0xa4: // LOG
		n := int(op) - 0xa0
		off, size := f.pop(), f.pop()
		var topics []common.Hash
		for i := 0; i < n; i++ {
			topics = append(topics, f.popHash())
		}
		mc, nl := f.expansion(off, size)
		cost := new(big.Int).Mul(size, big.NewInt(gLogData))
		cost.Add(cost, big.NewInt(int64(gLog+gLogTopic*n)))
		f.chargeBig(cost.Add(cost, mc))
		if f.m.static {
			f.halt("LOG in static context")
		}
		f.grow(nl)
		vm.st.logs = append(vm.st.logs, Log{Address: self, Topics: topics, Data: f.mread(off, size)})
		f.pc++
		return false
	}

	switch op {
	case 0x00: // STOP
		f.out = nil
		return true
	case 0x01:
		f.bin(gVeryLow, func(a, b *big.Int) *big.Int { return new(big.Int).Add(a, b) })
	case 0x02:
		f.bin(gLow, func(a, b *big.Int) *big.Int { return new(big.Int).Mul(a, b) })
	case 0x03:
		f.bin(gVeryLow, func(a, b *big.Int) *big.Int { return new(big.Int).Sub(a, b) })
	case 0x04: // DIV
		f.bin(gLow, func(a, b *big.Int) *big.Int {
			if b.Sign() == 0 {
				return new(big.Int)
			}
			return new(big.Int).Div(a, b)
		})
	case 0x05: // SDIV: truncated signed division
		f.bin(gLow, func(a, b *big.Int) *big.Int {
			if b.Sign() == 0 {
				return new(big.Int)
			}
			return new(big.Int).Quo(signed(a), signed(b))
		})
	case 0x06: // MOD
		f.bin(gLow, func(a, b *big.Int) *big.Int {
			if b.Sign() == 0 {
				return new(big.Int)
			}
			return new(big.Int).Mod(a, b)
		})
	case 0x07: // SMOD: sign of the dividend
		f.bin(gLow, func(a, b *big.Int) *big.Int {
			if b.Sign() == 0 {
				return new(big.Int)
			}
			return new(big.Int).Rem(signed(a), signed(b))
		})
	case 0x08, 0x09: // ADDMOD, MULMOD (intermediate not truncated)
		a, b, n := f.pop(), f.pop(), f.pop()
		f.charge(gMid)
		r := new(big.Int)
		if n.Sign() != 0 {
			if op == 0x08 {
				r.Add(a, b)
			} else {
				r.Mul(a, b)
			}
			r.Mod(r, n)
		}
		f.push(r)
		f.pc++
	case 0x0a: // EXP
		base, e := f.pop(), f.pop()
		f.charge(gExp + gExpByte*uint64((e.BitLen()+7)/8))
		f.push(new(big.Int).Exp(base, e, two256))
		f.pc++
	case 0x0b: // SIGNEXTEND
		b, x := f.pop(), f.pop()
		f.charge(gLow)
		r := new(big.Int).Set(x)
		if b.Cmp(big.NewInt(31)) < 0 {
			bits := uint(b.Uint64())*8 + 7
			mask := new(big.Int).Lsh(big.NewInt(1), bits+1)
			low := new(big.Int).Mod(x, mask)
			if x.Bit(int(bits)) == 1 {
				// all bits above `bits` become 1
				r = new(big.Int).Sub(two256, mask)
				r.Add(r, low)
			} else {
				r = low
			}
		}
		f.push(r)
		f.pc++
	case 0x10:
		f.cmp(func(a, b *big.Int) bool { return a.Cmp(b) < 0 })
	case 0x11:
		f.cmp(func(a, b *big.Int) bool { return a.Cmp(b) > 0 })
	case 0x12:
		f.cmp(func(a, b *big.Int) bool { return signed(a).Cmp(signed(b)) < 0 })
	case 0x13:
		f.cmp(func(a, b *big.Int) bool { return signed(a).Cmp(signed(b)) > 0 })
	case 0x14:
		f.cmp(func(a, b *big.Int) bool { return a.Cmp(b) == 0 })
	case 0x15: // ISZERO
		a := f.pop()
		f.charge(gVeryLow)
		f.pushBool(a.Sign() == 0)
		f.pc++
	case 0x16:
		f.bin(gVeryLow, func(a, b *big.Int) *big.Int { return new(big.Int).And(a, b) })
	case 0x17:
		f.bin(gVeryLow, func(a, b *big.Int) *big.Int { return new(big.Int).Or(a, b) })
	case 0x18:
		f.bin(gVeryLow, func(a, b *big.Int) *big.Int { return new(big.Int).Xor(a, b) })
	case 0x19: // NOT
		a := f.pop()
		f.charge(gVeryLow)
		r := new(big.Int).Sub(two256, big.NewInt(1))
		f.push(r.Sub(r, a))
		f.pc++
	case 0x1a: // BYTE(i, x)
		i, x := f.pop(), f.pop()
		f.charge(gVeryLow)
		r := new(big.Int)
		if i.Cmp(big32) < 0 {
			var w [32]byte
			x.FillBytes(w[:])
			r.SetUint64(uint64(w[i.Uint64()]))
		}
		f.push(r)
		f.pc++
	case 0x1b: // SHL(shift, value)
		f.bin(gVeryLow, func(s, v *big.Int) *big.Int {
			if s.Cmp(big.NewInt(256)) >= 0 {
				return new(big.Int)
			}
			return new(big.Int).Lsh(v, uint(s.Uint64()))
		})
	case 0x1c: // SHR
		f.bin(gVeryLow, func(s, v *big.Int) *big.Int {
			if s.Cmp(big.NewInt(256)) >= 0 {
				return new(big.Int)
			}
			return new(big.Int).Rsh(v, uint(s.Uint64()))
		})
	case 0x1d: // SAR: floor(signed(v) / 2^s)
		f.bin(gVeryLow, func(s, v *big.Int) *big.Int {
			sv := signed(v)
			if s.Cmp(big.NewInt(256)) >= 0 {
				if sv.Sign() < 0 {
					return big.NewInt(-1) // wrap() maps it to 2^256-1
				}
				return new(big.Int)
			}
			return new(big.Int).Rsh(sv, uint(s.Uint64())) // big.Int.Rsh is an arithmetic shift (rounds to -inf)
		})
	case 0x1e: // CLZ (EIP-7939, Osaka)
		if env.Fork < Osaka {
			f.halt("invalid opcode")
		}
		a := f.pop()
		f.charge(gLow)
		f.pushU(uint64(256 - a.BitLen()))
		f.pc++
	case 0x20: // KECCAK256
		off, size := f.pop(), f.pop()
		mc, nl := f.expansion(off, size)
		cost := new(big.Int).Mul(wordsBig(size), big.NewInt(gKeccakWord))
		cost.Add(cost, big.NewInt(gKeccak))
		f.chargeBig(cost.Add(cost, mc))
		f.grow(nl)
		f.pushBytes(crypto.Keccak256(f.mread(off, size)))
		f.pc++
	case 0x30:
		f.env0(new(big.Int).SetBytes(self[:]))
	case 0x31: // BALANCE
		a := f.popAddr()
		f.charge(f.accessAccount(a))
		f.push(new(big.Int).Set(vm.st.acc.get(a).Balance))
		f.pc++
	case 0x32:
		f.env0(new(big.Int).SetBytes(vm.origin[:]))
	case 0x33:
		f.env0(new(big.Int).SetBytes(f.m.caller[:]))
	case 0x34:
		f.env0(new(big.Int).Set(f.m.value))
	case 0x35: // CALLDATALOAD
		i := f.pop()
		f.charge(gVeryLow)
		f.pushBytes(slicePad(f.m.data, i, big32))
		f.pc++
	case 0x36:
		f.env0(big.NewInt(int64(len(f.m.data))))
	case 0x37, 0x39, 0x3e: // CALLDATACOPY, CODECOPY, RETURNDATACOPY
		dst, off, size := f.pop(), f.pop(), f.pop()
		mc, nl := f.expansion(dst, size)
		cost := new(big.Int).Mul(wordsBig(size), big.NewInt(gCopyWord))
		cost.Add(cost, big.NewInt(gVeryLow))
		f.chargeBig(cost.Add(cost, mc))
		var src []byte
		switch op {
		case 0x37:
			src = f.m.data
		case 0x39:
			src = f.code
		case 0x3e:
			src = f.ret
			// EIP-211: reading past the end of the return data buffer is an exceptional halt
			if end := new(big.Int).Add(off, size); end.Cmp(big.NewInt(int64(len(f.ret)))) > 0 {
				f.halt("return data out of bounds")
			}
		}
		f.grow(nl)
		f.mwrite(dst, slicePad(src, off, size))
		f.pc++
	case 0x38:
		f.env0(big.NewInt(int64(len(f.code))))
	case 0x3a:
		f.env0(new(big.Int).Set(vm.gasPrice))
	case 0x3b: // EXTCODESIZE
		a := f.popAddr()
		f.charge(f.accessAccount(a))
		f.pushU(uint64(len(vm.st.acc.get(a).Code)))
		f.pc++
	case 0x3c: // EXTCODECOPY
		a := f.popAddr()
		dst, off, size := f.pop(), f.pop(), f.pop()
		mc, nl := f.expansion(dst, size)
		cost := new(big.Int).Mul(wordsBig(size), big.NewInt(gCopyWord))
		cost.Add(cost, new(big.Int).SetUint64(f.accessAccount(a)))
		f.chargeBig(cost.Add(cost, mc))
		f.grow(nl)
		f.mwrite(dst, slicePad(vm.st.acc.get(a).Code, off, size))
		f.pc++
	case 0x3d:
		f.env0(big.NewInt(int64(len(f.ret))))
	case 0x3f: // EXTCODEHASH (EIP-1052): 0 for dead accounts
		a := f.popAddr()
		f.charge(f.accessAccount(a))
		if vm.st.acc.dead(a) {
			f.pushU(0)
		} else {
			f.pushBytes(crypto.Keccak256(vm.st.acc.get(a).Code))
		}
		f.pc++
	case 0x40: // BLOCKHASH
		n := f.pop()
		f.charge(gBlockhash)
		r := new(big.Int)
		if n.IsUint64() && n.Uint64() < env.Number && env.Number-n.Uint64() <= 256 {
			h := env.BlockHash(n.Uint64())
			r.SetBytes(h[:])
		}
		f.push(r)
		f.pc++
	case 0x41:
		f.env0(new(big.Int).SetBytes(env.Coinbase[:]))
	case 0x42:
		f.env0(new(big.Int).SetUint64(env.Time))
	case 0x43:
		f.env0(new(big.Int).SetUint64(env.Number))
	case 0x44:
		f.env0(new(big.Int).SetBytes(env.PrevRandao[:]))
	case 0x45:
		f.env0(new(big.Int).SetUint64(env.GasLimit))
	case 0x46:
		f.env0(new(big.Int).Set(env.ChainID))
	case 0x47: // SELFBALANCE
		f.charge(gLow)
		f.push(new(big.Int).Set(vm.st.acc.get(self).Balance))
		f.pc++
	case 0x48:
		f.env0(new(big.Int).Set(env.BaseFee))
	case 0x49: // BLOBHASH
		i := f.pop()
		f.charge(gVeryLow)
		r := new(big.Int)
		if i.IsInt64() && i.Int64() < int64(len(vm.blobHashes)) {
			r.SetBytes(vm.blobHashes[i.Int64()][:])
		}
		f.push(r)
		f.pc++
	case 0x4a:
		f.env0(new(big.Int).Set(env.BlobBaseFee))
	case 0x50: // POP
		f.pop()
		f.charge(gBase)
		f.pc++
	case 0x51: // MLOAD
		off := f.pop()
		mc, nl := f.expansion(off, big32)
		f.chargeBig(mc.Add(mc, big.NewInt(gVeryLow)))
		f.grow(nl)
		f.pushBytes(f.mread(off, big32))
		f.pc++
	case 0x52: // MSTORE
		off, v := f.pop(), f.pop()
		mc, nl := f.expansion(off, big32)
		f.chargeBig(mc.Add(mc, big.NewInt(gVeryLow)))
		f.grow(nl)
		var w [32]byte
		v.FillBytes(w[:])
		f.mwrite(off, w[:])
		f.pc++
	case 0x53: // MSTORE8
		off, v := f.pop(), f.pop()
		mc, nl := f.expansion(off, big.NewInt(1))
		f.chargeBig(mc.Add(mc, big.NewInt(gVeryLow)))
		f.grow(nl)
		f.mwrite(off, []byte{byte(new(big.Int).Mod(v, big.NewInt(256)).Uint64())})
		f.pc++
	case 0x54: // SLOAD
		k := f.popHash()
		sk := slotKey{self, k}
		if vm.st.warmSlot[sk] {
			f.charge(gWarmAccess)
		} else {
			f.charge(gColdSload)
			vm.st.warmSlot[sk] = true
		}
		v := vm.st.acc.get(self).Storage[k]
		f.pushBytes(v[:])
		f.pc++
	case 0x55: // SSTORE (EIP-2200 + EIP-2929 + EIP-3529)
		k, nv := f.popHash(), f.popHash()
		if f.gas <= gCallStipend {
			f.halt("SSTORE with gas <= stipend")
		}
		var zero common.Hash
		cur := vm.st.acc.get(self).Storage[k]
		orig := zero
		if o, ok := vm.orig[self]; ok && !vm.st.created[self] {
			orig = o.Storage[k]
		}
		cost := uint64(0)
		sk := slotKey{self, k}
		if !vm.st.warmSlot[sk] {
			cost += gColdSload
			vm.st.warmSlot[sk] = true
		}
		switch {
		case cur == nv:
			cost += gWarmAccess
		case orig == cur:
			if orig == zero {
				cost += gSset
			} else {
				cost += gSreset
			}
		default:
			cost += gWarmAccess
		}
		f.charge(cost)
		if cur != nv {
			if orig == cur {
				if orig != zero && nv == zero {
					vm.st.refund += rSclear
				}
			} else {
				if orig != zero {
					if cur == zero {
						vm.st.refund -= rSclear
					} else if nv == zero {
						vm.st.refund += rSclear
					}
				}
				if orig == nv {
					if orig == zero {
						vm.st.refund += gSset - gWarmAccess
					} else {
						vm.st.refund += gSreset - gWarmAccess
					}
				}
			}
		}
		if f.m.static {
			f.halt("SSTORE in static context")
		}
		acc := vm.st.mut(self)
		if nv == zero {
			delete(acc.Storage, k)
		} else {
			acc.Storage[k] = nv
		}
		f.pc++
	case 0x56: // JUMP
		d := f.pop()
		f.charge(gMid)
		if !f.validDest(d) {
			f.halt("invalid jump destination")
		}
		f.pc = int(d.Int64())
	case 0x57: // JUMPI
		d, c := f.pop(), f.pop()
		f.charge(gHigh)
		if c.Sign() != 0 {
			if !f.validDest(d) {
				f.halt("invalid jump destination")
			}
			f.pc = int(d.Int64())
		} else {
			f.pc++
		}
	case 0x58:
		f.env0(big.NewInt(int64(f.pc)))
	case 0x59:
		f.env0(big.NewInt(int64(len(f.mem))))
	case 0x5a: // GAS: gas available after paying for this instruction
		f.charge(gBase)
		f.pushU(f.gas)
		f.pc++
	case 0x5b:
		f.charge(gJumpdest)
		f.pc++
	case 0x5c: // TLOAD
		k := f.popHash()
		f.charge(gWarmAccess)
		v := vm.st.transient[slotKey{self, k}]
		f.pushBytes(v[:])
		f.pc++
	case 0x5d: // TSTORE
		k, v := f.popHash(), f.popHash()
		f.charge(gWarmAccess)
		if f.m.static {
			f.halt("TSTORE in static context")
		}
		vm.st.transient[slotKey{self, k}] = v
		f.pc++
	case 0x5e: // MCOPY (EIP-5656)
		dst, src, size := f.pop(), f.pop(), f.pop()
		mc, nl := f.expansion(dst, size, src, size)
		cost := new(big.Int).Mul(wordsBig(size), big.NewInt(gCopyWord))
		cost.Add(cost, big.NewInt(gVeryLow))
		f.chargeBig(cost.Add(cost, mc))
		f.grow(nl)
		f.mwrite(dst, f.mread(src, size))
		f.pc++
	case 0x5f:
		f.env0(new(big.Int))
	case 0xf0, 0xf5: // CREATE, CREATE2
		f.opCreate(op)
	case 0xf1, 0xf2, 0xf4, 0xfa: // CALL, CALLCODE, DELEGATECALL, STATICCALL
		f.opCall(op)
	case 0xf3, 0xfd: // RETURN, REVERT
		off, size := f.pop(), f.pop()
		mc, nl := f.expansion(off, size)
		f.chargeBig(mc)
		f.grow(nl)
		f.out = f.mread(off, size)
		if op == 0xfd {
			panic(revertErr{})
		}
		return true
	case 0xff: // SELFDESTRUCT (EIP-6780)
		b := f.popAddr()
		cost := uint64(gSelfdestruct)
		if !vm.st.warmAddr[b] {
			vm.st.warmAddr[b] = true
			cost += gColdAccount
		}
		bal := new(big.Int).Set(vm.st.acc.get(self).Balance)
		if vm.st.acc.dead(b) && bal.Sign() != 0 {
			cost += gNewAccount
		}
		f.charge(cost)
		if f.m.static {
			f.halt("SELFDESTRUCT in static context")
		}
		// move the balance (to itself: unchanged unless the account is then deleted)
		vm.st.mut(self).Balance.Sub(vm.st.mut(self).Balance, bal)
		vm.st.mut(b).Balance.Add(vm.st.mut(b).Balance, bal)
		if vm.st.created[self] {
			vm.st.destruct[self] = true
			vm.st.mut(self).Balance.SetUint64(0)
		}
		f.out = nil
		return true
	default: // 0xfe INVALID and every undefined opcode
		f.halt(fmt.Sprintf("invalid opcode 0x%02x", op))
	}
	return false
}

func allButOne64th(g uint64) uint64 { return g - g/64 }

func (f *frame) opCall(op byte) {
	vm := f.vm
	self := f.m.target
	gasReq := f.pop()
	to := f.popAddr()
	value := new(big.Int)
	if op == 0xf1 || op == 0xf2 {
		value = f.pop()
	}
	inOff, inSize, outOff, outSize := f.pop(), f.pop(), f.pop(), f.pop()
	mc, nl := f.expansion(inOff, inSize, outOff, outSize)
	extra := f.accessAccount(to)
	code, target := vm.resolve(to)
	if target != nil {
		extra += f.accessAccount(*target) // EIP-7702: loading the delegated code is another account access
	}
	if value.Sign() != 0 {
		extra += gCallValue
		if op == 0xf1 && vm.st.acc.dead(to) {
			extra += gNewAccount
		}
	}
	if !mc.IsUint64() {
		f.halt("out of gas")
	}
	// EIP-150: at most all but one 64th of the gas remaining after the other costs
	if f.gas < extra+mc.Uint64() {
		f.halt("out of gas")
	}
	avail := allButOne64th(f.gas - extra - mc.Uint64())
	callGas := avail
	if gasReq.IsUint64() && gasReq.Uint64() < avail {
		callGas = gasReq.Uint64()
	}
	f.charge(extra + mc.Uint64() + callGas)
	if op == 0xf1 && f.m.static && value.Sign() != 0 {
		f.halt("value transfer in static context")
	}
	f.grow(nl)
	childGas := callGas
	if value.Sign() != 0 {
		childGas += gCallStipend
	}
	f.ret = nil
	f.pc++
	if vm.st.acc.get(self).Balance.Cmp(value) < 0 || f.m.depth+1 > callDepthLimit {
		f.gas += childGas
		f.pushU(0)
		return
	}
	if isPrecompile(vm.env.Fork, to) {
		vm.unsupported = "call to a precompile"
	}
	m := &message{codeAddr: to, code: code, data: f.mread(inOff, inSize), gas: childGas, depth: f.m.depth + 1, static: f.m.static}
	switch op {
	case 0xf1: // CALL
		m.caller, m.target, m.value, m.transfer = self, to, value, true
	case 0xf2: // CALLCODE
		m.caller, m.target, m.value, m.transfer = self, self, value, true
	case 0xf4: // DELEGATECALL
		m.caller, m.target, m.value, m.transfer = f.m.caller, self, f.m.value, false
	case 0xfa: // STATICCALL
		m.caller, m.target, m.value, m.transfer, m.static = self, to, new(big.Int), false, true
	}
	res := vm.process(m)
	f.gas += res.gasLeft
	f.pushBool(res.err == nil)
	f.ret = res.output
	n := len(res.output)
	if outSize.IsInt64() && int64(n) > outSize.Int64() {
		n = int(outSize.Int64())
	}
	f.mwrite(outOff, res.output[:n])
}

func (f *frame) opCreate(op byte) {
	vm := f.vm
	self := f.m.target
	value, off, size := f.pop(), f.pop(), f.pop()
	var salt [32]byte
	if op == 0xf5 {
		f.pop().FillBytes(salt[:])
	}
	mc, nl := f.expansion(off, size)
	cost := new(big.Int).Mul(wordsBig(size), big.NewInt(gInitCodeWord)) // EIP-3860
	if op == 0xf5 {
		h := new(big.Int).Mul(wordsBig(size), big.NewInt(gKeccakWord))
		cost.Add(cost, h)
	}
	cost.Add(cost, big.NewInt(gCreate))
	f.chargeBig(cost.Add(cost, mc))
	if size.Cmp(big.NewInt(maxInitCodeSize)) > 0 {
		f.halt("EIP-3860 initcode size")
	}
	if f.m.static {
		f.halt("CREATE in static context")
	}
	f.grow(nl)
	init := f.mread(off, size)
	childGas := allButOne64th(f.gas)
	f.gas -= childGas
	f.ret = nil
	f.pc++
	sender := vm.st.acc.get(self)
	if sender.Balance.Cmp(value) < 0 || sender.Nonce == ^uint64(0) || f.m.depth+1 > callDepthLimit {
		f.gas += childGas
		f.pushU(0)
		return
	}
	var addr common.Address
	if op == 0xf0 {
		addr = CreateAddress(self, sender.Nonce)
	} else {
		addr = Create2Address(self, salt, init)
	}
	vm.st.warmAddr[addr] = true
	vm.st.mut(self).Nonce++
	if t := vm.st.acc.get(addr); t.Nonce != 0 || len(t.Code) != 0 || len(t.Storage) != 0 {
		// EIP-684 / EIP-7610 collision: the gas given to the creation is lost
		f.pushU(0)
		return
	}
	res := vm.process(&message{caller: self, target: addr, codeAddr: addr, code: init, value: value, transfer: true,
		gas: childGas, depth: f.m.depth + 1, create: true})
	f.gas += res.gasLeft
	if res.err == nil {
		f.push(new(big.Int).SetBytes(addr[:]))
	} else {
		f.pushU(0)
		f.ret = res.output // EIP-211: revert data of a failed creation is available
	}
}
