// Package refevm is the deliberately naive reference model of the Ethereum
// state transition used by the /verif check C26 (differential oracle).
//
// It is written ONLY from the Yellow Paper and the EIP texts (EIP-150, 161, 170,
// 211, 214, 684, 1014, 1052, 1153, 1283/2200, 1344, 1559, 1884, 2028, 2565-n/a,
// 2681, 2718, 2929, 2930, 3198, 3529, 3541, 3607, 3651, 3855, 3860, 4844 (fee
// part), 5656, 6780, 7516, 7623, 7825, 7939) and shares no code with
// go-ethereum's core/vm or core/state_transition.go. It only uses go-ethereum's
// common types, Keccak-256, RLP encoding and the StackTrie (for the state root).
//
// Everything is big.Int arithmetic, deep-copy snapshots and plain maps: slow,
// boring, obviously-correct-by-reading. Scope: rule sets Cancun, Prague, Osaka;
// legacy / EIP-2930 / EIP-1559 / blob (fees only) transactions; the opcode
// subset listed in evm.go. Anything outside the subset sets Result.Unsupported.
package refevm

import (
	"bytes"
	"math/big"
	"sort"
	"sync"
	"sync/atomic"

	"github.com/ethereum/go-ethereum/common"
	"github.com/ethereum/go-ethereum/crypto"
	"github.com/ethereum/go-ethereum/rlp"
	"github.com/ethereum/go-ethereum/trie"
)

// Fork is a rule set.
type Fork int

const (
	Cancun Fork = iota
	Prague
	Osaka
)

func (f Fork) String() string { return [...]string{"Cancun", "Prague", "Osaka"}[f] }

// Account is one account of the world state. A missing account and an account
// with nonce 0, balance 0, no code and no storage are the same thing (EIP-161;
// the pre-state must not contain empty accounts).
type Account struct {
	Nonce   uint64
	Balance *big.Int
	Code    []byte
	Storage map[common.Hash]common.Hash // only non-zero values

	// leaf caches the account's state-trie leaf (RLP of nonce, balance, storage root, code hash) for Root.
	// It is dropped by every World.mut (all modifications of the model go through mut / SetCode) and
	// inherited by copies, so that unchanged accounts are not re-hashed for every compared case.
	leaf []byte
	// gen identifies the txState that owns this object exclusively; any other txState sharing the pointer
	// (snapshots are shallow) clones the account before modifying it (txState.mut).
	gen uint64
}

var genCounter atomic.Uint64

func newGen() uint64 { return genCounter.Add(1) }

// SetCode replaces the code of an existing or new account (for building pre-states).
func (w World) SetCode(a common.Address, code []byte) { w.mut(a).Code = append([]byte{}, code...) }

// World is the world state sigma.
type World map[common.Address]*Account

func (a *Account) copy() *Account {
	// code byte slices are never modified in place (only replaced), so copies may share them
	n := &Account{Nonce: a.Nonce, Balance: new(big.Int).Set(a.Balance), Code: a.Code, Storage: make(map[common.Hash]common.Hash, len(a.Storage)), leaf: a.leaf}
	for k, v := range a.Storage {
		n.Storage[k] = v
	}
	return n
}

// Copy returns a deep copy.
func (w World) Copy() World {
	n := World{}
	for a, acc := range w {
		n[a] = acc.copy()
	}
	return n
}

// get returns the account (never nil; a missing account reads as empty and is not inserted).
func (w World) get(a common.Address) *Account {
	if acc, ok := w[a]; ok {
		return acc
	}
	return &Account{Balance: new(big.Int), Storage: map[common.Hash]common.Hash{}}
}

// mut returns the account for modification, inserting an empty one if missing. Only for worlds that share no
// accounts with another world (pre-state construction); transaction processing uses txState.mut.
func (w World) mut(a common.Address) *Account {
	if acc, ok := w[a]; ok {
		acc.leaf = nil
		return acc
	}
	acc := &Account{Balance: new(big.Int), Storage: map[common.Hash]common.Hash{}}
	w[a] = acc
	return acc
}

func (a *Account) empty() bool {
	return a.Nonce == 0 && a.Balance.Sign() == 0 && len(a.Code) == 0
}

// dead: non-existent or empty (EIP-161).
func (w World) dead(a common.Address) bool { return w.get(a).empty() }

// sweep removes accounts that are empty and hold no storage (they do not exist).
func (w World) sweep() {
	for a, acc := range w {
		if acc.empty() && len(acc.Storage) == 0 {
			delete(w, a)
		}
	}
}

func trimLeft(b []byte) []byte {
	for len(b) > 0 && b[0] == 0 {
		b = b[1:]
	}
	return b
}

type kv struct{ k, v []byte }

func rootOf(items []kv) common.Hash {
	sort.Slice(items, func(i, j int) bool { return bytes.Compare(items[i].k, items[j].k) < 0 })
	st := trie.NewStackTrie(nil)
	for _, it := range items {
		st.Update(it.k, it.v)
	}
	return st.Hash()
}

// storageRoot is rootOf with a memo (pure function of the slot set; the same few small storages recur in
// every compared case).
var storageRoots sync.Map

func storageRoot(slots []kv) common.Hash {
	sort.Slice(slots, func(i, j int) bool { return bytes.Compare(slots[i].k, slots[j].k) < 0 })
	var key []byte
	for _, s := range slots {
		key = append(append(key, s.k...), s.v...)
		key = append(key, '|')
	}
	if h, ok := storageRoots.Load(string(key)); ok {
		return h.(common.Hash)
	}
	h := rootOf(slots)
	storageRoots.Store(string(key), h)
	return h
}

// Root computes the Yellow Paper state root of w (secure Merkle-Patricia trie of
// RLP(nonce, balance, storageRoot, codeHash) keyed by keccak(address)).
func (w World) Root() common.Hash {
	var items []kv
	for addr, acc := range w {
		if acc.empty() && len(acc.Storage) == 0 {
			continue
		}
		if acc.leaf != nil {
			items = append(items, kv{crypto.Keccak256(addr[:]), acc.leaf})
			continue
		}
		var slots []kv
		for k, v := range acc.Storage {
			if v == (common.Hash{}) {
				continue
			}
			enc, _ := rlp.EncodeToBytes(trimLeft(v[:]))
			slots = append(slots, kv{crypto.Keccak256(k[:]), enc})
		}
		sroot := storageRoot(slots)
		enc, err := rlp.EncodeToBytes([]any{acc.Nonce, acc.Balance, sroot[:], crypto.Keccak256(acc.Code)})
		if err != nil {
			panic(err)
		}
		acc.leaf = enc
		items = append(items, kv{crypto.Keccak256(addr[:]), enc})
	}
	return rootOf(items)
}

// Log is one log entry.
type Log struct {
	Address common.Address
	Topics  []common.Hash
	Data    []byte
}

type slotKey struct {
	a common.Address
	k common.Hash
}

// txState is everything a message frame can change and that is rolled back
// when the frame fails: accounts, transient storage, warm sets, logs, refund
// counter, set of accounts created in this transaction.
type txState struct {
	gen       uint64
	acc       World
	transient map[slotKey]common.Hash
	warmAddr  map[common.Address]bool
	warmSlot  map[slotKey]bool
	logs      []Log
	refund    int64
	created   map[common.Address]bool
	destruct  map[common.Address]bool
}

// mut returns the account for modification (copy-on-write with respect to snapshots), inserting an empty one if missing.
func (s *txState) mut(a common.Address) *Account {
	acc, ok := s.acc[a]
	switch {
	case !ok:
		acc = &Account{Balance: new(big.Int), Storage: map[common.Hash]common.Hash{}, gen: s.gen}
		s.acc[a] = acc
	case acc.gen != s.gen:
		acc = acc.copy()
		acc.gen = s.gen
		s.acc[a] = acc
	}
	acc.leaf = nil
	return acc
}

// copy takes a snapshot. Semantically a deep copy; the accounts themselves are shared until either side
// modifies them (both sides get a fresh generation, so both clone before writing).
func (s *txState) copy() *txState {
	shared := make(World, len(s.acc))
	for a, acc := range s.acc {
		shared[a] = acc
	}
	s.gen = newGen()
	n := &txState{
		gen:       newGen(),
		acc:       shared,
		transient: map[slotKey]common.Hash{},
		warmAddr:  map[common.Address]bool{},
		warmSlot:  map[slotKey]bool{},
		logs:      append([]Log{}, s.logs...),
		refund:    s.refund,
		created:   map[common.Address]bool{},
		destruct:  map[common.Address]bool{},
	}
	for k, v := range s.transient {
		n.transient[k] = v
	}
	for k, v := range s.warmAddr {
		n.warmAddr[k] = v
	}
	for k, v := range s.warmSlot {
		n.warmSlot[k] = v
	}
	for k, v := range s.created {
		n.created[k] = v
	}
	for k, v := range s.destruct {
		n.destruct[k] = v
	}
	return n
}
