package refevm

import (
	"math/big"

	"github.com/ethereum/go-ethereum/common"
	"github.com/ethereum/go-ethereum/crypto"
	"github.com/ethereum/go-ethereum/rlp"
)

// Env is the block environment.
type Env struct {
	Fork        Fork
	Coinbase    common.Address
	Number      uint64
	Time        uint64
	GasLimit    uint64
	BaseFee     *big.Int
	PrevRandao  common.Hash
	ChainID     *big.Int
	BlobBaseFee *big.Int
	BlockHash   func(n uint64) common.Hash // hash of block n (only asked for the 256 most recent ones)
}

// AccessTuple is one EIP-2930 access list entry.
type AccessTuple struct {
	Address common.Address
	Keys    []common.Hash
}

// Transaction kinds.
const (
	TxLegacy  = 0
	TxAccess  = 1 // EIP-2930
	TxDynamic = 2 // EIP-1559
	TxBlob    = 3 // EIP-4844
	TxSetCode = 4 // EIP-7702
)

// Authorization is one EIP-7702 tuple. The signature is not modelled: the harness states which account signed it
// (Authority == nil: no valid signature, e.g. garbage r/s or a high s value).
type Authorization struct {
	ChainID   *big.Int
	Address   common.Address
	Nonce     uint64
	Authority *common.Address
}

// Tx is a transaction after sender recovery.
type Tx struct {
	Type       int
	From       common.Address
	To         *common.Address // nil = contract creation
	Nonce      uint64
	Value      *big.Int
	Gas        uint64
	GasPrice   *big.Int // legacy / 2930
	MaxFee     *big.Int // 1559 / blob
	MaxTip     *big.Int // 1559 / blob
	Data       []byte
	AccessList []AccessTuple
	BlobHashes []common.Hash
	MaxBlobFee *big.Int
	Auths      []Authorization // TxSetCode
	Aux        any             // ignored by the reference (the harness keeps the signed tuples here)
}

// Rejection classes (a rejected transaction is not included in the block and changes nothing).
const (
	RejIntrinsicGas   = "intrinsic-gas"      // gas limit below the intrinsic cost
	RejFloorGas       = "floor-gas"          // gas limit below the EIP-7623 floor
	RejNonceLow       = "nonce-too-low"      //
	RejNonceHigh      = "nonce-too-high"     //
	RejNonceMax       = "nonce-max"          // EIP-2681
	RejInitCodeSize   = "initcode-too-large" // EIP-3860
	RejGasCap         = "tx-gas-cap"         // EIP-7825
	RejBlockGas       = "block-gas-exceeded" //
	RejTipAboveFeeCap = "tip-above-fee-cap"  //
	RejFeeCapTooLow   = "fee-cap-below-base-fee"
	RejFunds          = "insufficient-funds"
	RejSenderNotEOA   = "sender-not-eoa" // EIP-3607
	RejBlobFeeCap     = "blob-fee-cap-too-low"
	RejBlobNone       = "blob-tx-without-blobs"
	RejBlobCreate     = "blob-tx-create"
	RejBlobVersion    = "blob-hash-version"
	RejBlobCount      = "too-many-blobs"
	RejSetCodeCreate  = "set-code-tx-create"
	RejSetCodeEmpty   = "set-code-tx-without-authorizations"
)

// Result of applying one transaction.
type Result struct {
	Rejected     string // "" = included
	AllRejects   []string
	Status       bool   // receipt status
	GasUsed      uint64 // receipt gas used (after refund and floor)
	GasSpent     uint64 // gas limit minus gas left, before the refund
	Logs         []Log
	Output       []byte          // output of the top-level call (return or revert data)
	Created      *common.Address // address a create transaction deploys to
	Unsupported  string          // non-empty: the execution left the modelled subset
	IntrinsicGas uint64
	FloorGas     uint64
}

// Block is a block under construction: environment, state, cumulative gas.
type Block struct {
	Env     Env
	World   World
	GasUsed uint64
}

const (
	gTransaction      = 21000
	gTxCreate         = 32000
	gTxDataZero       = 4
	gTxDataNonZero    = 16 // EIP-2028
	gAccessListAddr   = 2400
	gAccessListKey    = 1900
	gInitCodeWord     = 2  // EIP-3860
	maxInitCodeSize   = 49152
	maxCodeSize       = 24576
	gFloorPerToken    = 10 // EIP-7623
	txGasCap          = 1 << 24
	gPerEmptyAccount  = 25000 // EIP-7702 PER_EMPTY_ACCOUNT_COST, charged per tuple in the intrinsic gas
	gPerAuthBase      = 12500 // EIP-7702 PER_AUTH_BASE_COST
	gasPerBlob        = 1 << 17
	maxBlobsPerTxFusa = 6 // EIP-7594: at most 6 blobs per transaction from Osaka
)

func words(n uint64) uint64 { return (n + 31) / 32 }

// IntrinsicGas is g0 of the Yellow Paper with EIP-2028, 2930, 3860.
func IntrinsicGas(tx *Tx) uint64 {
	g := uint64(gTransaction)
	for _, b := range tx.Data {
		if b == 0 {
			g += gTxDataZero
		} else {
			g += gTxDataNonZero
		}
	}
	if tx.To == nil {
		g += gTxCreate + gInitCodeWord*words(uint64(len(tx.Data)))
	}
	for _, t := range tx.AccessList {
		g += gAccessListAddr + gAccessListKey*uint64(len(t.Keys))
	}
	g += gPerEmptyAccount * uint64(len(tx.Auths))
	return g
}

// FloorGas is the EIP-7623 calldata floor.
func FloorGas(tx *Tx) uint64 {
	tokens := uint64(0)
	for _, b := range tx.Data {
		if b == 0 {
			tokens++
		} else {
			tokens += 4
		}
	}
	return gTransaction + gFloorPerToken*tokens
}

func (tx *Tx) feeCap() *big.Int {
	if tx.Type >= TxDynamic {
		return tx.MaxFee
	}
	return tx.GasPrice
}

// precompiles returns the precompile addresses of the fork (pre-warmed by EIP-2929).
func precompiles(f Fork) []common.Address {
	n := 0x0a // Cancun: 0x01..0x0a (point evaluation is 0x0a)
	if f >= Prague {
		n = 0x11 // EIP-2537 adds 0x0b..0x11
	}
	var out []common.Address
	for i := 1; i <= n; i++ {
		out = append(out, common.BytesToAddress([]byte{byte(i)}))
	}
	if f >= Osaka {
		out = append(out, common.BytesToAddress([]byte{0x01, 0x00})) // EIP-7951 P256VERIFY
	}
	return out
}

var precompileSets = [...][]common.Address{Cancun: precompiles(Cancun), Prague: precompiles(Prague), Osaka: precompiles(Osaka)}

func isPrecompile(f Fork, a common.Address) bool {
	for _, p := range precompileSets[f] {
		if p == a {
			return true
		}
	}
	return false
}

// CreateAddress is the CREATE address: the low 160 bits of KEC(RLP(sender, nonce)).
func CreateAddress(sender common.Address, nonce uint64) common.Address {
	enc, _ := rlp.EncodeToBytes([]any{sender[:], nonce})
	return common.BytesToAddress(crypto.Keccak256(enc)[12:])
}

// Create2Address is the EIP-1014 address.
func Create2Address(sender common.Address, salt [32]byte, initcode []byte) common.Address {
	buf := append([]byte{0xff}, sender[:]...)
	buf = append(buf, salt[:]...)
	buf = append(buf, crypto.Keccak256(initcode)...)
	return common.BytesToAddress(crypto.Keccak256(buf)[12:])
}

// validate returns all reasons why tx is not includable (empty = valid).
func (b *Block) validate(tx *Tx) []string {
	var rej []string
	env := &b.Env
	intrinsic := IntrinsicGas(tx)
	if tx.Gas < intrinsic {
		rej = append(rej, RejIntrinsicGas)
	}
	if env.Fork >= Prague && tx.Gas < FloorGas(tx) {
		rej = append(rej, RejFloorGas)
	}
	if tx.To == nil && len(tx.Data) > maxInitCodeSize {
		rej = append(rej, RejInitCodeSize)
	}
	if env.Fork >= Osaka && tx.Gas > txGasCap {
		rej = append(rej, RejGasCap)
	}
	if tx.Gas > env.GasLimit-b.GasUsed {
		rej = append(rej, RejBlockGas)
	}
	sender := b.World.get(tx.From)
	if sender.Nonce > tx.Nonce {
		rej = append(rej, RejNonceLow)
	} else if sender.Nonce < tx.Nonce {
		rej = append(rej, RejNonceHigh)
	} else if sender.Nonce == ^uint64(0) {
		rej = append(rej, RejNonceMax)
	}
	if len(sender.Code) > 0 && !(env.Fork >= Prague && isDelegation(sender.Code)) {
		rej = append(rej, RejSenderNotEOA)
	}
	if tx.Type >= TxDynamic && tx.MaxFee.Cmp(tx.MaxTip) < 0 {
		rej = append(rej, RejTipAboveFeeCap)
	}
	if tx.feeCap().Cmp(env.BaseFee) < 0 {
		rej = append(rej, RejFeeCapTooLow)
	}
	// up-front balance: gas * fee cap + value (+ blob gas * blob fee cap)
	need := new(big.Int).Mul(new(big.Int).SetUint64(tx.Gas), tx.feeCap())
	need.Add(need, tx.Value)
	if tx.Type == TxBlob {
		if tx.To == nil {
			rej = append(rej, RejBlobCreate)
		}
		if len(tx.BlobHashes) == 0 {
			rej = append(rej, RejBlobNone)
		}
		if env.Fork >= Osaka && len(tx.BlobHashes) > maxBlobsPerTxFusa {
			rej = append(rej, RejBlobCount)
		}
		for _, h := range tx.BlobHashes {
			if h[0] != 0x01 {
				rej = append(rej, RejBlobVersion)
				break
			}
		}
		if tx.MaxBlobFee.Cmp(env.BlobBaseFee) < 0 {
			rej = append(rej, RejBlobFeeCap)
		}
		blobGas := new(big.Int).SetUint64(uint64(len(tx.BlobHashes)) * gasPerBlob)
		need.Add(need, blobGas.Mul(blobGas, tx.MaxBlobFee))
	}
	if tx.Type == TxSetCode {
		if tx.To == nil {
			rej = append(rej, RejSetCodeCreate)
		}
		if len(tx.Auths) == 0 {
			rej = append(rej, RejSetCodeEmpty)
		}
	}
	if sender.Balance.Cmp(need) < 0 {
		rej = append(rej, RejFunds)
	}
	return rej
}

// isDelegation: EIP-7702 delegation designator 0xef0100 || address.
func isDelegation(code []byte) bool {
	return len(code) == 23 && code[0] == 0xef && code[1] == 0x01 && code[2] == 0x00
}

// applyAuthorizations processes the EIP-7702 authorization list (before the message is executed; never rolled back).
func (vm *machine) applyAuthorizations(auths []Authorization) {
	st := vm.st
	for _, a := range auths {
		if a.ChainID.Sign() != 0 && a.ChainID.Cmp(vm.env.ChainID) != 0 {
			continue
		}
		if a.Nonce == ^uint64(0) {
			continue
		}
		if a.Authority == nil {
			continue
		}
		auth := *a.Authority
		st.warmAddr[auth] = true
		acc := st.acc.get(auth)
		if len(acc.Code) > 0 && !isDelegation(acc.Code) {
			continue
		}
		if acc.Nonce != a.Nonce {
			continue
		}
		if !st.acc.dead(auth) || len(acc.Storage) > 0 { // the account exists in the state
			st.refund += gPerEmptyAccount - gPerAuthBase
		}
		m := st.mut(auth)
		if a.Address == (common.Address{}) {
			m.Code = nil
		} else {
			m.Code = append([]byte{0xef, 0x01, 0x00}, a.Address[:]...)
		}
		m.Nonce++
	}
}

// resolve returns the code executed for a call to a (EIP-7702, Prague+: one level of delegation) and, when a is
// delegated, the delegation target.
func (vm *machine) resolve(a common.Address) ([]byte, *common.Address) {
	code := vm.st.acc.get(a).Code
	if vm.env.Fork >= Prague && isDelegation(code) {
		t := common.BytesToAddress(code[3:])
		return vm.st.acc.get(t).Code, &t
	}
	return code, nil
}

// Apply applies tx to the block (Yellow Paper section 6 with the EIPs listed in the
// package comment). A rejected transaction changes nothing.
func (b *Block) Apply(tx *Tx) *Result {
	res := &Result{IntrinsicGas: IntrinsicGas(tx)}
	env := &b.Env
	if env.Fork >= Prague {
		res.FloorGas = FloorGas(tx)
	}
	if rej := b.validate(tx); len(rej) > 0 {
		res.Rejected = rej[0]
		res.AllRejects = rej
		return res
	}
	// effective gas price and priority fee
	price := new(big.Int).Set(tx.feeCap())
	if tx.Type >= TxDynamic {
		p := new(big.Int).Add(env.BaseFee, tx.MaxTip)
		if p.Cmp(tx.MaxFee) < 0 {
			price = p
		}
	}
	tip := new(big.Int).Sub(price, env.BaseFee)

	st := &txState{
		acc:       b.World, // modified in place; frames snapshot by deep copy
		transient: map[slotKey]common.Hash{},
		warmAddr:  map[common.Address]bool{},
		warmSlot:  map[slotKey]bool{},
		created:   map[common.Address]bool{},
		destruct:  map[common.Address]bool{},
	}
	st.gen = newGen()
	orig := World{} // accounts are cloned before their first modification (txState.mut), so sharing them is safe
	for a, acc := range b.World {
		orig[a] = acc
	}
	vm := &machine{env: env, st: st, orig: orig, origin: tx.From, gasPrice: price, blobHashes: tx.BlobHashes}

	// up-front: nonce, gas purchase, blob fee
	sender := st.mut(tx.From)
	sender.Nonce++
	cost := new(big.Int).Mul(new(big.Int).SetUint64(tx.Gas), price)
	if tx.Type == TxBlob {
		bg := new(big.Int).SetUint64(uint64(len(tx.BlobHashes)) * gasPerBlob)
		cost.Add(cost, bg.Mul(bg, env.BlobBaseFee))
	}
	sender.Balance.Sub(sender.Balance, cost)

	// EIP-2929 / 2930 / 3651 warm sets
	st.warmAddr[tx.From] = true
	st.warmAddr[env.Coinbase] = true
	for _, p := range precompileSets[env.Fork] {
		st.warmAddr[p] = true
	}
	for _, t := range tx.AccessList {
		st.warmAddr[t.Address] = true
		for _, k := range t.Keys {
			st.warmSlot[slotKey{t.Address, k}] = true
		}
	}

	gas := tx.Gas - res.IntrinsicGas
	var out *outcome
	if tx.To == nil {
		addr := CreateAddress(tx.From, sender.Nonce-1)
		res.Created = &addr
		st.warmAddr[addr] = true
		if t := st.acc.get(addr); t.Nonce != 0 || len(t.Code) != 0 || len(t.Storage) != 0 {
			out = &outcome{gasLeft: 0, err: haltErr{"address collision"}}
		} else {
			out = vm.process(&message{caller: tx.From, target: addr, codeAddr: addr, code: tx.Data, value: tx.Value,
				transfer: true, gas: gas, depth: 0, create: true})
		}
	} else {
		st.warmAddr[*tx.To] = true
		if isPrecompile(env.Fork, *tx.To) {
			res.Unsupported = "transaction to a precompile"
		}
		vm.applyAuthorizations(tx.Auths)
		code, target := vm.resolve(*tx.To)
		if target != nil {
			st.warmAddr[*target] = true
		}
		out = vm.process(&message{caller: tx.From, target: *tx.To, codeAddr: *tx.To, code: code, value: tx.Value,
			transfer: true, data: tx.Data, gas: gas, depth: 0})
	}
	st = vm.st
	if vm.unsupported != "" {
		res.Unsupported = vm.unsupported
	}

	// gas settlement: EIP-3529 refund cap, EIP-7623 floor
	spent := tx.Gas - out.gasLeft
	counter := uint64(0)
	if st.refund > 0 {
		counter = uint64(st.refund)
	}
	refund := spent / 5
	if counter < refund {
		refund = counter
	}
	used := spent - refund
	if env.Fork >= Prague && used < res.FloorGas {
		used = res.FloorGas
	}
	back := new(big.Int).Mul(new(big.Int).SetUint64(tx.Gas-used), price)
	s := st.mut(tx.From)
	s.Balance.Add(s.Balance, back)
	fee := new(big.Int).Mul(new(big.Int).SetUint64(used), tip)
	c := st.mut(env.Coinbase)
	c.Balance.Add(c.Balance, fee)

	// EIP-6780 self-destructs of accounts created in this transaction
	for a := range st.destruct {
		delete(st.acc, a)
	}
	st.acc.sweep()
	b.World = st.acc
	b.GasUsed += used

	res.Status = out.err == nil
	res.GasUsed = used
	res.GasSpent = spent
	res.Logs = st.logs
	res.Output = out.output
	return res
}
