package vsched

import (
	"encoding/json"
	"fmt"
	"strings"
	"time"

	"github.com/ethereum/go-ethereum/internal/verif/mc"
)

// Scenario is one closed concurrent harness explored by RunMC.
type Scenario struct {
	Name     string
	Body     func()               // runs as thread "main" of each execution; builds all state afresh
	Check    func(x *Exec) error  // evaluated after every execution
	Obs      func(x *Exec) string // optional: observable outcome of the execution (distinct-outcome statistics)
	MaxSteps int
}

// RunMC explores sc with iterative preemption bounding 0..maxPre and reports into r.
// A failure is re-executed three times from its schedule and must fail identically,
// otherwise it is reported as a harness error (non-determinism), never as a violation.
func RunMC(r *mc.R, sc Scenario, maxPre int) {
	if rp := r.ReplayDescriptor(); rp != nil {
		var d struct {
			Sched   string `json:"sched"`
			Choices []int  `json:"choices"`
		}
		if json.Unmarshal(rp, &d) != nil || d.Sched != sc.Name {
			return
		}
		r.ReplayHit()
		r.Eval(1)
		err, x, herr := Replay(d.Choices, Options{MaxSteps: sc.MaxSteps}, sc.Body, sc.Check)
		if herr != "" {
			r.HarnessError(sc.Name + ": " + herr)
			return
		}
		if err != nil {
			r.Violation(violKey(sc.Name, d.Choices), err.Error()+"\nexecution log:\n"+strings.Join(x.Log, "\n"), map[string]any{"sched": sc.Name, "choices": d.Choices})
		}
		return
	}
	completed := -1
	for b := 0; b <= maxPre; b++ {
		if r.Expired() {
			break
		}
		opts := Options{MaxPreemptions: b, MaxSteps: sc.MaxSteps, Deadline: time.Now().Add(r.Remaining())}
		outcomes := map[string]int64{}
		check := func(x *Exec) error {
			if sc.Obs != nil {
				o := sc.Obs(x)
				outcomes[o]++
			}
			return sc.Check(x)
		}
		res := Explore(opts, sc.Body, check)
		r.Eval(res.Executions)
		r.Trace(res.Executions)
		r.Transition(res.Points)
		r.State(res.Nodes)
		for o, n := range outcomes {
			if r.Distinct(sc.Name + "|" + o) {
				_ = n
			}
		}
		r.Bound(fmt.Sprintf("%s.preemptions<=%d.executions", sc.Name, b), res.Executions)
		r.Bound(sc.Name+".max_choice_points", res.MaxTrace)
		r.Bound(fmt.Sprintf("%s.preemptions<=%d.distinct_outcomes", sc.Name, b), len(outcomes))
		if res.HarnessError != "" {
			r.HarnessError(sc.Name + ": " + res.HarnessError)
			return
		}
		if res.Failure != nil {
			f := res.Failure
			// confirm determinism
			for i := 0; i < 3; i++ {
				err, _, herr := Replay(f.Choices, Options{MaxSteps: sc.MaxSteps}, sc.Body, sc.Check)
				if herr != "" || err == nil || err.Error() != f.Err {
					got := "<no error>"
					if err != nil {
						got = err.Error()
					}
					r.HarnessError(fmt.Sprintf("%s: failure did not reproduce identically on replay %d (schedule %s): first %q, then %q %s", sc.Name, i, FormatChoices(f.Choices), f.Err, got, herr))
					return
				}
			}
			_, x, _ := Replay(f.Choices, Options{MaxSteps: sc.MaxSteps}, sc.Body, sc.Check)
			r.Violation(violKey(sc.Name, f.Choices), fmt.Sprintf("%s\n(preemption bound %d, schedule %s)\nexecution log:\n%s", f.Err, b, FormatChoices(f.Choices), strings.Join(x.Log, "\n")),
				map[string]any{"sched": sc.Name, "choices": f.Choices})
			return
		}
		if !res.Exhaustive {
			r.NotExhaustive(fmt.Sprintf("%s: budget reached inside preemption bound %d", sc.Name, b))
			break
		}
		completed = b
		if b == 0 || b == maxPre {
			r.Sample(map[string]any{"sched": sc.Name, "preemption_bound": b, "executions": res.Executions, "choice_points": res.Points})
		}
	}
	r.Bound(sc.Name+".preemption_bound_completed", completed)
}

func violKey(name string, c []int) string { return name + "@" + FormatChoices(c) }
