// Package vsched is the controlled scheduler (engine E2) of /verif.
//
// Instrumented copies of go-ethereum source files (produced by tools/vinstr) call
// into this package for every synchronisation operation: mutexes (via vsync),
// atomics (vatomic), channel send/receive/close/select, goroutine creation and
// timers (vtime). While an exploration is active exactly ONE controlled thread runs
// at a time; each operation first parks the thread and returns control to the
// explorer, which decides which thread continues. The explorer enumerates the
// schedules depth-first with a preemption bound (iterative context bounding). All
// channel operations are executed by the scheduler itself on the real channels
// (non-blocking reflect operations), so the program keeps its real channel values.
//
// When no exploration is active every operation falls through to the real Go
// primitive, so instrumented code behaves normally (package init, ordinary tests,
// the free-running -race companion pass).
package vsched

import (
	"fmt"
	"os"
	"reflect"
	"runtime"
	"runtime/debug"
	"sort"
	"strconv"
	"strings"
	"sync/atomic"
	"time"
)

// ---------------------------------------------------------------------------
// threads and operations

type opKind int

const (
	opStart  opKind = iota // thread created, not yet started
	opYield                // always enabled scheduling point (atomics, sleeps)
	opBlock                // enabled iff pred()
	opSelect               // channel operation(s)
	opTimer                // timer pseudo-thread waiting to fire (enabled until stopped)
)

type selCase struct {
	dir reflect.SelectDir
	ch  reflect.Value
	val reflect.Value
}

type op struct {
	kind       opKind
	desc       string
	pred       func() bool
	cases      []selCase
	hasDefault bool
	// result, filled in by the scheduler
	completed bool
	chosen    int
	recv      reflect.Value
	recvOK    bool
	panicMsg  string
}

type thread struct {
	id      int
	name    string
	wake    chan struct{}
	done    bool
	started bool
	op      *op
	timer   *Timer
	s       *Sched
}

type abortSentinel struct{}

// point is one recorded choice point of an execution.
type point struct {
	n          int  // number of options
	preemptive bool // choosing an option > 0 switches away from a still-enabled running thread
	chosen     int
	sig        uint64 // signature of the options (divergence detection)
}

// Sched is one execution under the controlled scheduler.
type Sched struct {
	threads  []*thread
	cur      *thread
	yield    chan struct{}
	prefix   []int
	sigs     []uint64 // expected signatures for the prefix (nil = not checked)
	trace    []point
	aborting bool
	closed   map[uintptr]bool
	panics   []string
	deadlock string
	steps    int
	maxSteps int
	horizon  bool // maxSteps reached
	diverged string
	hang     string
	data     any
	log      []string
	logOn    bool
}

var active atomic.Pointer[Sched]

// Active reports whether a controlled exploration is running.
func Active() bool { return active.Load() != nil }

func current() (*Sched, *thread) {
	s := active.Load()
	if s == nil {
		return nil, nil
	}
	return s, s.cur
}

// Logf appends to the execution log (shown with counterexamples) when logging is on.
func Logf(format string, a ...any) {
	if s := active.Load(); s != nil && s.logOn {
		name := "?"
		if s.cur != nil {
			name = s.cur.name
		}
		s.log = append(s.log, name+": "+fmt.Sprintf(format, a...))
	}
}

func (s *Sched) newThread(name string, fn func()) *thread {
	t := &thread{id: len(s.threads), name: name, wake: make(chan struct{}), s: s}
	t.op = &op{kind: opStart, desc: "start"}
	s.threads = append(s.threads, t)
	go func() {
		<-t.wake
		defer func() {
			if p := recover(); p != nil {
				if _, ok := p.(abortSentinel); !ok {
					s.panics = append(s.panics, fmt.Sprintf("thread %s: panic: %v\n%s", t.name, p, debug.Stack()))
				}
			}
			t.done = true
			t.op = nil
			s.yield <- struct{}{}
		}()
		if s.aborting {
			return
		}
		t.started = true
		if t.timer != nil {
			t.timer.fired = true
		}
		fn()
	}()
	return t
}

// park publishes o as the pending operation of the running thread and blocks
// until the scheduler resumes it.
func (s *Sched) park(t *thread, o *op) {
	if s.aborting {
		panic(abortSentinel{})
	}
	t.op = o
	s.yield <- struct{}{}
	<-t.wake
	t.op = nil
	if s.aborting {
		panic(abortSentinel{})
	}
	if o.panicMsg != "" {
		panic(o.panicMsg)
	}
}

// ---------------------------------------------------------------------------
// operations used by the shims (thread side)

// Yield is an always-enabled scheduling point.
func Yield(desc string) {
	s, t := current()
	if s == nil || t == nil {
		return
	}
	s.park(t, &op{kind: opYield, desc: desc})
}

// Block parks the current thread until pred() holds (evaluated by the scheduler
// while no thread runs). It is a scheduling point even if pred already holds.
func Block(desc string, pred func() bool) {
	s, t := current()
	if s == nil || t == nil {
		// pass-through: there is no generic way to wait; callers use real primitives instead.
		for !pred() {
			time.Sleep(50 * time.Microsecond)
		}
		return
	}
	s.park(t, &op{kind: opBlock, desc: desc, pred: pred})
}

// Await is Block for harness code.
func Await(pred func() bool) { Block("await", pred) }

// Aborting reports whether the current execution is being torn down (deferred
// functions of killed threads may still run; shims must not block then).
func Aborting() bool {
	s := active.Load()
	return s != nil && s.aborting
}

// Go starts fn as a controlled thread (or a plain goroutine in pass-through mode).
func Go(fn func()) { GoNamed("", fn) }

// GoNamed is Go with a thread name for counterexample output.
func GoNamed(name string, fn func()) {
	s, t := current()
	if s == nil || t == nil {
		go fn()
		return
	}
	if s.aborting {
		return
	}
	if name == "" {
		name = fmt.Sprintf("%s.%d", t.name, len(s.threads))
	}
	s.newThread(name, fn)
}

func chanID(ch reflect.Value) uintptr { return ch.Pointer() }

// Close closes a channel and lets the scheduler know.
func Close[T any](ch chan T) { CloseAny(ch) }

// CloseAny is close(ch) for a channel of any type / direction.
func CloseAny(ch any) {
	rv := reflect.ValueOf(ch)
	s, t := current()
	if s == nil || t == nil {
		rv.Close()
		return
	}
	if !s.aborting {
		s.park(t, &op{kind: opYield, desc: "close"})
	}
	if rv.IsValid() && !rv.IsNil() {
		s.closed[rv.Pointer()] = true
	}
	rv.Close()
}

// SendOp returns the function performing ch <- v (two steps so that v is merely
// assignable to the element type, as in a send statement).
func SendOp[T any](ch chan<- T) func(T) {
	return func(v T) { Send(ch, v) }
}

// AddSendOp is AddSend in two steps (see SendOp).
func AddSendOp[T any](sel *Sel, ch chan<- T) func(T) int {
	return func(v T) int { return AddSend(sel, ch, v) }
}

// Send performs ch <- v.
func Send[T any](ch chan<- T, v T) {
	s, t := current()
	if s == nil || t == nil {
		ch <- v
		return
	}
	if s.aborting {
		trySendAbort(reflect.ValueOf(ch), reflect.ValueOf(&v).Elem())
		return
	}
	o := &op{kind: opSelect, desc: "send", cases: []selCase{{dir: reflect.SelectSend, ch: reflect.ValueOf(ch), val: reflect.ValueOf(&v).Elem()}}}
	s.park(t, o)
}

func trySendAbort(ch, v reflect.Value) {
	defer func() { recover() }()
	if ch.IsValid() && !ch.IsNil() {
		ch.TrySend(v)
	}
}

// Recv performs <-ch.
func Recv[T any](ch <-chan T) T {
	v, _ := Recv2(ch)
	return v
}

// Recv2 performs v, ok := <-ch.
func Recv2[T any](ch <-chan T) (T, bool) {
	s, t := current()
	if s == nil || t == nil {
		v, ok := <-ch
		return v, ok
	}
	var zero T
	if s.aborting {
		panic(abortSentinel{})
	}
	o := &op{kind: opSelect, desc: "recv", cases: []selCase{{dir: reflect.SelectRecv, ch: reflect.ValueOf(ch)}}}
	s.park(t, o)
	if !o.recvOK {
		return zero, false
	}
	return valueAs[T](o.recv), true
}

func valueAs[T any](v reflect.Value) T {
	var zero T
	if !v.IsValid() {
		return zero
	}
	if x, ok := v.Interface().(T); ok {
		return x
	}
	return zero
}

// Sel is a select statement under construction (used by vinstr-generated code).
type Sel struct {
	cases      []selCase
	hasDefault bool
	o          *op
	chosen     int
	recv       reflect.Value
	recvOK     bool
}

// NewSelect starts a select statement.
func NewSelect(hasDefault bool) *Sel { return &Sel{hasDefault: hasDefault} }

// AddSend adds `case ch <- v`.
func AddSend[T any](sel *Sel, ch chan<- T, v T) int {
	sel.cases = append(sel.cases, selCase{dir: reflect.SelectSend, ch: reflect.ValueOf(ch), val: reflect.ValueOf(&v).Elem()})
	return len(sel.cases) - 1
}

// Rx is the receive side of a select case.
type Rx[T any] struct {
	sel *Sel
	idx int
}

// AddRecv adds `case v, ok := <-ch`.
func AddRecv[T any](sel *Sel, ch <-chan T) *Rx[T] {
	sel.cases = append(sel.cases, selCase{dir: reflect.SelectRecv, ch: reflect.ValueOf(ch)})
	return &Rx[T]{sel: sel, idx: len(sel.cases) - 1}
}

// Get returns the received value of the chosen receive case.
func (r *Rx[T]) Get() (T, bool) {
	var zero T
	if r.sel.chosen != r.idx || !r.sel.recvOK {
		return zero, false
	}
	return valueAs[T](r.sel.recv), true
}

// Val returns the received value only.
func (r *Rx[T]) Val() T { v, _ := r.Get(); return v }

// Do executes the select and returns the index of the chosen case (-1 = default).
func (sel *Sel) Do() int {
	rc := make([]reflect.SelectCase, 0, len(sel.cases)+1)
	for _, c := range sel.cases {
		rc = append(rc, reflect.SelectCase{Dir: c.dir, Chan: c.ch, Send: c.val})
	}
	if sel.hasDefault {
		rc = append(rc, reflect.SelectCase{Dir: reflect.SelectDefault})
	}
	chosen, recv, ok := ReflectSelect(rc)
	if sel.hasDefault && chosen == len(sel.cases) {
		chosen = -1
	}
	sel.chosen, sel.recv, sel.recvOK = chosen, recv, ok
	return chosen
}

// ReflectSelect is reflect.Select under the scheduler.
func ReflectSelect(cases []reflect.SelectCase) (int, reflect.Value, bool) {
	s, t := current()
	if s == nil || t == nil {
		return reflect.Select(cases)
	}
	if s.aborting {
		panic(abortSentinel{})
	}
	o := &op{kind: opSelect, desc: "select"}
	defIdx := -1
	idxMap := make([]int, 0, len(cases))
	for i, c := range cases {
		if c.Dir == reflect.SelectDefault {
			o.hasDefault = true
			defIdx = i
			continue
		}
		o.cases = append(o.cases, selCase{dir: c.Dir, ch: c.Chan, val: c.Send})
		idxMap = append(idxMap, i)
	}
	s.park(t, o)
	if o.chosen < 0 {
		return defIdx, reflect.Value{}, false
	}
	ci := idxMap[o.chosen]
	if cases[ci].Dir == reflect.SelectRecv {
		rv := o.recv
		if !rv.IsValid() {
			rv = reflect.Zero(cases[ci].Chan.Type().Elem())
		}
		return ci, rv, o.recvOK
	}
	return ci, reflect.Value{}, false
}

// ReflectTrySend is reflect.Value.TrySend under the scheduler.
func ReflectTrySend(ch reflect.Value, v reflect.Value) bool {
	s, t := current()
	if s == nil || t == nil {
		return ch.TrySend(v)
	}
	if s.aborting {
		return false
	}
	o := &op{kind: opSelect, desc: "trysend", hasDefault: true, cases: []selCase{{dir: reflect.SelectSend, ch: ch, val: v}}}
	s.park(t, o)
	return o.chosen == 0
}

// ReflectTryRecv is reflect.Value.TryRecv under the scheduler.
func ReflectTryRecv(ch reflect.Value) (reflect.Value, bool) {
	s, t := current()
	if s == nil || t == nil {
		return ch.TryRecv()
	}
	if s.aborting {
		return reflect.Value{}, false
	}
	o := &op{kind: opSelect, desc: "tryrecv", hasDefault: true, cases: []selCase{{dir: reflect.SelectRecv, ch: ch}}}
	s.park(t, o)
	if o.chosen != 0 {
		return reflect.Value{}, false
	}
	rv := o.recv
	if !rv.IsValid() {
		rv = reflect.Zero(ch.Type().Elem())
	}
	return rv, o.recvOK
}

// Timer is a controlled timer: a pseudo-thread that may fire at any scheduling
// point until it is stopped.
type Timer struct {
	stopped bool
	fired   bool
	t       *thread
}

// AfterFunc registers fn to run "at some later moment" as its own controlled
// thread. It returns nil when no exploration is active.
func AfterFunc(name string, fn func()) *Timer {
	s, t := current()
	if s == nil || t == nil || s.aborting {
		return nil
	}
	if name == "" {
		name = fmt.Sprintf("timer.%d", len(s.threads))
	}
	tm := &Timer{}
	th := s.newThread(name, fn)
	th.op = &op{kind: opTimer, desc: "timer"}
	th.timer = tm
	tm.t = th
	return tm
}

// Stop prevents the timer from firing; it reports whether it did so in time.
func (tm *Timer) Stop() bool {
	if tm.fired || tm.stopped {
		return false
	}
	tm.stopped = true
	return true
}

// Fired reports whether the timer's function has started.
func (tm *Timer) Fired() bool { return tm.fired }

// ---------------------------------------------------------------------------
// scheduler side

func (s *Sched) choose(n int, preemptive bool, sig uint64) int {
	i := len(s.trace)
	c := 0
	if i < len(s.prefix) {
		c = s.prefix[i]
		if c >= n {
			s.diverged = fmt.Sprintf("replay divergence at choice point %d: choice %d of %d options", i, c, n)
			c = 0
		}
		if s.sigs != nil && i < len(s.sigs) && s.sigs[i] != sig {
			s.diverged = fmt.Sprintf("replay divergence at choice point %d: option signature changed", i)
		}
	}
	s.trace = append(s.trace, point{n: n, preemptive: preemptive, chosen: c, sig: sig})
	return c
}

func (s *Sched) partnerRecv(self *thread, ch reflect.Value) []*thread {
	var out []*thread
	id := chanID(ch)
	for _, u := range s.threads {
		if u == self || u.done || u.op == nil || u.op.kind != opSelect || u.op.completed {
			continue
		}
		for _, c := range u.op.cases {
			if c.dir == reflect.SelectRecv && c.ch.IsValid() && !c.ch.IsNil() && chanID(c.ch) == id {
				out = append(out, u)
				break
			}
		}
	}
	return out
}

func (s *Sched) partnerSend(self *thread, ch reflect.Value) []*thread {
	var out []*thread
	id := chanID(ch)
	for _, u := range s.threads {
		if u == self || u.done || u.op == nil || u.op.kind != opSelect || u.op.completed {
			continue
		}
		for _, c := range u.op.cases {
			if c.dir == reflect.SelectSend && c.ch.IsValid() && !c.ch.IsNil() && chanID(c.ch) == id {
				out = append(out, u)
				break
			}
		}
	}
	return out
}

// caseReady reports whether case c of thread t can proceed now.
func (s *Sched) caseReady(t *thread, c selCase) bool {
	if !c.ch.IsValid() || c.ch.IsNil() {
		return false
	}
	switch c.dir {
	case reflect.SelectSend:
		if s.closed[chanID(c.ch)] {
			return true // will panic: send on closed channel
		}
		if c.ch.Cap() > 0 {
			return c.ch.Len() < c.ch.Cap()
		}
		return len(s.partnerRecv(t, c.ch)) > 0
	case reflect.SelectRecv:
		if c.ch.Len() > 0 {
			return true
		}
		if s.closed[chanID(c.ch)] {
			return true
		}
		if c.ch.Cap() == 0 && len(s.partnerSend(t, c.ch)) > 0 {
			return true
		}
		// A channel closed by un-instrumented code (e.g. ctx.Done()) is detected by a non-blocking
		// receive; with Len()==0 and no native senders this cannot consume a value.
		if c.ch.Type().ChanDir()&reflect.RecvDir != 0 {
			x, ok := c.ch.TryRecv()
			if x.IsValid() && !ok {
				s.closed[chanID(c.ch)] = true
				return true
			}
			if x.IsValid() && ok {
				s.hang = "vsched: a value was sent on a channel by an uncontrolled goroutine; harness error"
			}
		}
		return false
	}
	return false
}

func (s *Sched) readyCases(t *thread) []int {
	var out []int
	for i, c := range t.op.cases {
		if s.caseReady(t, c) {
			out = append(out, i)
		}
	}
	return out
}

func (s *Sched) isEnabled(t *thread) bool {
	if t.done || t.op == nil {
		return false
	}
	o := t.op
	if o.completed {
		return true
	}
	switch o.kind {
	case opStart, opYield:
		return true
	case opTimer:
		return t.timer != nil && !t.timer.stopped
	case opBlock:
		return o.pred()
	case opSelect:
		if o.hasDefault {
			return true
		}
		return len(s.readyCases(t)) > 0
	}
	return false
}

// perform executes the pending operation of t on its behalf.
func (s *Sched) perform(t *thread) {
	o := t.op
	if o == nil || o.completed || o.kind != opSelect {
		return
	}
	ready := s.readyCases(t)
	if len(ready) == 0 {
		o.chosen = -1 // default
		o.completed = true
		return
	}
	k := 0
	if len(ready) > 1 {
		k = s.choose(len(ready), false, uint64(len(ready))*7919+uint64(t.id))
	}
	ci := ready[k]
	c := o.cases[ci]
	o.chosen = ci
	o.completed = true
	switch c.dir {
	case reflect.SelectSend:
		if s.closed[chanID(c.ch)] {
			o.panicMsg = "send on closed channel"
			return
		}
		if c.ch.Cap() > 0 {
			if !s.trySend(c.ch, c.val) {
				s.hang = "vsched: buffered send expected to succeed did not"
			}
			return
		}
		ps := s.partnerRecv(t, c.ch)
		pk := 0
		if len(ps) > 1 {
			pk = s.choose(len(ps), false, uint64(len(ps))*104729+uint64(t.id))
		}
		p := ps[pk]
		for i, pc := range p.op.cases {
			if pc.dir == reflect.SelectRecv && pc.ch.IsValid() && !pc.ch.IsNil() && chanID(pc.ch) == chanID(c.ch) {
				p.op.chosen = i
				break
			}
		}
		p.op.recv = c.val
		p.op.recvOK = true
		p.op.completed = true
	case reflect.SelectRecv:
		if c.ch.Len() > 0 {
			x, ok := c.ch.TryRecv()
			if !x.IsValid() {
				s.hang = "vsched: buffered receive expected to succeed did not"
			}
			o.recv, o.recvOK = x, ok
			return
		}
		if c.ch.Cap() == 0 && !s.closed[chanID(c.ch)] {
			ps := s.partnerSend(t, c.ch)
			if len(ps) > 0 {
				pk := 0
				if len(ps) > 1 {
					pk = s.choose(len(ps), false, uint64(len(ps))*1299709+uint64(t.id))
				}
				p := ps[pk]
				for i, pc := range p.op.cases {
					if pc.dir == reflect.SelectSend && pc.ch.IsValid() && !pc.ch.IsNil() && chanID(pc.ch) == chanID(c.ch) {
						p.op.chosen = i
						o.recv = pc.val
						break
					}
				}
				o.recvOK = true
				p.op.completed = true
				return
			}
		}
		// closed
		o.recv, o.recvOK = reflect.Value{}, false
	}
}

func (s *Sched) trySend(ch, v reflect.Value) (ok bool) {
	defer func() {
		if p := recover(); p != nil {
			ok = false
		}
	}()
	if !v.IsValid() {
		v = reflect.Zero(ch.Type().Elem())
	}
	return ch.TrySend(v)
}

func (s *Sched) enabledList() []*thread {
	var en []*thread
	if s.cur != nil && s.isEnabled(s.cur) {
		en = append(en, s.cur)
	}
	for _, t := range s.threads {
		if t != s.cur && s.isEnabled(t) {
			en = append(en, t)
		}
	}
	return en
}

func (s *Sched) waitYield(t *thread) bool {
	progress.Add(1)
	select {
	case <-s.yield:
		return true
	case <-hangCh:
		s.hang = fmt.Sprintf("vsched: thread %s did not reach a scheduling point within %v (blocked in un-instrumented code?)", t.name, watchdog)
		return false
	}
}

// progress is bumped at every scheduling step; the watchdog goroutine (one per Explore)
// signals hangCh when it has not moved for `watchdog`.
var (
	progress atomic.Int64
	hangCh   = make(chan struct{})
)

func startWatchdog() (stop func()) {
	quit := make(chan struct{})
	go func() {
		last := progress.Load()
		lastChange := time.Now()
		tick := time.NewTicker(time.Second)
		defer tick.Stop()
		for {
			select {
			case <-quit:
				return
			case <-tick.C:
				if p := progress.Load(); p != last {
					last, lastChange = p, time.Now()
				} else if time.Since(lastChange) > watchdog {
					select {
					case hangCh <- struct{}{}:
					case <-quit:
						return
					}
					lastChange = time.Now()
				}
			}
		}
	}()
	return func() { close(quit) }
}

var watchdog = 30 * time.Second

func (s *Sched) loop() {
	for {
		if s.diverged != "" || s.hang != "" {
			return
		}
		en := s.enabledList()
		if len(en) == 0 {
			var blocked []string
			for _, t := range s.threads {
				if !t.done && t.op != nil && t.timer == nil {
					blocked = append(blocked, t.name+":"+t.op.desc)
				}
			}
			if len(blocked) > 0 {
				s.deadlock = strings.Join(blocked, ", ")
			}
			return
		}
		if s.steps >= s.maxSteps {
			s.horizon = true
			return
		}
		s.steps++
		idx := 0
		if len(en) > 1 {
			var sig uint64 = 1469598103934665603
			for _, t := range en {
				sig = (sig ^ uint64(t.id+1)) * 1099511628211
				if t.op != nil {
					sig = (sig ^ uint64(t.op.kind+1)) * 1099511628211
				}
			}
			idx = s.choose(len(en), en[0] == s.cur, sig)
		}
		t := en[idx]
		s.perform(t)
		if s.hang != "" {
			return
		}
		s.cur = t
		if s.logOn {
			d := ""
			if t.op != nil {
				d = t.op.desc
			}
			s.log = append(s.log, fmt.Sprintf("-> %s (%s)", t.name, d))
		}
		t.wake <- struct{}{}
		if !s.waitYield(t) {
			return
		}
	}
}

// teardown kills the threads that are still parked.
func (s *Sched) teardown() {
	s.aborting = true
	for _, t := range s.threads {
		for i := 0; !t.done && i < 1000; i++ {
			s.cur = t
			select {
			case t.wake <- struct{}{}:
			case <-time.After(5 * time.Second):
				return // leaked goroutine; give up silently
			}
			select {
			case <-s.yield:
			case <-time.After(5 * time.Second):
				return
			}
		}
	}
}

// ---------------------------------------------------------------------------
// exploration

// Exec is the result of one execution handed to the check function.
type Exec struct {
	Choices     []int
	Deadlock    string   // non-empty: threads blocked forever (names and operations)
	Panics      []string // panics that escaped a controlled thread
	Horizon     bool     // step horizon reached (execution cut)
	Steps       int
	Data        any // whatever the body stored with SetData
	Log         []string
	Preemptions int
}

// SetData attaches harness data to the running execution (readable in check via Exec.Data).
func SetData(v any) {
	if s := active.Load(); s != nil {
		s.data = v
	}
}

// Options of an exploration.
type Options struct {
	MaxPreemptions int
	MaxSteps       int       // per execution horizon (default 5000)
	MaxExecutions  int64     // cap; hitting it => Exhaustive=false
	Deadline       time.Time // zero = none; hitting it => Exhaustive=false
	Shard, Shards  int       // optional: only explore top-level alternatives i with i%Shards==Shard
	Log            bool
}

// Result of an exploration.
type Result struct {
	Executions   int64
	Points       int64 // total choice points executed (transitions)
	Nodes        int64 // distinct schedule-tree nodes visited
	MaxTrace     int
	Exhaustive   bool
	Bound        int
	HarnessError string // divergence / hang: the run is not trustworthy (never a verdict)
	Failure      *Failure
}

// Failure is a counterexample schedule.
type Failure struct {
	Choices []int
	Err     string
	Log     []string
}

func run1(prefix []int, sigs []uint64, opts Options, body func()) (*Sched, *Exec) {
	s := &Sched{yield: make(chan struct{}), prefix: prefix, sigs: sigs, closed: map[uintptr]bool{}, maxSteps: opts.MaxSteps, logOn: opts.Log}
	if s.maxSteps == 0 {
		s.maxSteps = 5000
	}
	if !active.CompareAndSwap(nil, s) {
		panic("vsched: nested / concurrent explorations are not supported")
	}
	s.newThread("main", body)
	s.loop()
	x := &Exec{Deadlock: s.deadlock, Panics: s.panics, Horizon: s.horizon, Steps: s.steps, Log: s.log}
	s.teardown()
	x.Data = s.data
	x.Panics = s.panics
	for _, p := range s.trace {
		x.Choices = append(x.Choices, p.chosen)
		if p.preemptive && p.chosen > 0 {
			x.Preemptions++
		}
	}
	active.Store(nil)
	return s, x
}

// Explore enumerates all schedules of body with at most opts.MaxPreemptions
// preemptions. body is executed as thread "main" of a fresh execution each time
// and must build all its state afresh. check is called after every execution
// (outside the controlled world) and returns a non-nil error on a property
// violation. Exploration stops at the first failure.
func Explore(opts Options, body func(), check func(x *Exec) error) *Result {
	res := &Result{Exhaustive: true, Bound: opts.MaxPreemptions}
	defer startWatchdog()()
	if os.Getenv("VSCHED_PROCS") != "" {
		if n, err := strconv.Atoi(os.Getenv("VSCHED_PROCS")); err == nil && n > 0 {
			defer runtime.GOMAXPROCS(runtime.GOMAXPROCS(n))
		}
	} else {
		defer runtime.GOMAXPROCS(runtime.GOMAXPROCS(1))
	}
	type frame struct {
		prefix []int
		sigs   []uint64
	}
	stack := []frame{{}}
	top := true
	for len(stack) > 0 {
		f := stack[len(stack)-1]
		stack = stack[:len(stack)-1]
		if (opts.MaxExecutions > 0 && res.Executions >= opts.MaxExecutions) || (!opts.Deadline.IsZero() && time.Now().After(opts.Deadline)) {
			res.Exhaustive = false
			break
		}
		s, x := run1(f.prefix, f.sigs, opts, body)
		res.Executions++
		res.Points += int64(len(s.trace))
		res.Nodes += int64(len(s.trace) - len(f.prefix) + 1)
		if len(s.trace) > res.MaxTrace {
			res.MaxTrace = len(s.trace)
		}
		if s.diverged != "" || s.hang != "" {
			res.HarnessError = s.diverged + s.hang
			res.Exhaustive = false
			return res
		}
		if len(s.trace) < len(f.prefix) {
			res.HarnessError = fmt.Sprintf("replay divergence: execution ended after %d choice points, prefix has %d", len(s.trace), len(f.prefix))
			res.Exhaustive = false
			return res
		}
		if err := check(x); err != nil {
			res.Failure = &Failure{Choices: x.Choices, Err: err.Error(), Log: x.Log}
			return res
		}
		// children: deviate at every point after the prefix
		cost := 0
		for i := 0; i < len(f.prefix); i++ {
			if s.trace[i].preemptive && s.trace[i].chosen > 0 {
				cost++
			}
		}
		var kids []frame
		for i := len(f.prefix); i < len(s.trace); i++ {
			p := s.trace[i]
			for alt := 1; alt < p.n; alt++ {
				c := cost
				if p.preemptive {
					c++
				}
				if c > opts.MaxPreemptions {
					continue
				}
				if top && opts.Shards > 1 && len(kids)%opts.Shards != opts.Shard {
					kids = append(kids, frame{}) // placeholder to keep numbering stable
					continue
				}
				np := make([]int, i+1)
				for j := 0; j < i; j++ {
					np[j] = s.trace[j].chosen
				}
				np[i] = alt
				ns := make([]uint64, i+1)
				for j := 0; j <= i; j++ {
					ns[j] = s.trace[j].sig
				}
				kids = append(kids, frame{np, ns})
			}
			// (trace[i].chosen is 0 beyond the prefix, so cost is unchanged)
		}
		top = false
		// push in reverse so that the earliest deviation is explored first
		for i := len(kids) - 1; i >= 0; i-- {
			if kids[i].prefix != nil {
				stack = append(stack, kids[i])
			}
		}
	}
	return res
}

// Replay executes exactly one schedule (with execution log) and returns the check result.
func Replay(choices []int, opts Options, body func(), check func(x *Exec) error) (error, *Exec, string) {
	opts.Log = true
	defer startWatchdog()()
	s, x := run1(choices, nil, opts, body)
	if s.diverged != "" || s.hang != "" {
		return nil, x, s.diverged + s.hang
	}
	return check(x), x, ""
}

// FormatChoices renders a schedule.
func FormatChoices(c []int) string {
	parts := make([]string, len(c))
	for i, v := range c {
		parts[i] = fmt.Sprint(v)
	}
	return strings.Join(parts, ",")
}

// SortedKeys returns the keys of a map in a deterministic order (spawn order must be replayable).
func SortedKeys[K comparable, V any](m map[K]V) []K {
	keys := make([]K, 0, len(m))
	for k := range m {
		keys = append(keys, k)
	}
	sort.Slice(keys, func(i, j int) bool { return fmt.Sprint(keys[i]) < fmt.Sprint(keys[j]) })
	return keys
}

// CritExit is the panic value used instead of os.Exit for log.Crit under instrumentation.
type CritExit struct{ Msg string }

// Crit panics with CritExit.
func Crit(msg string, ctx ...any) { panic(CritExit{Msg: fmt.Sprint(append([]any{msg}, ctx...)...)}) }

// InFlightRecv returns the number of parked threads whose receive on ch has already been completed by the
// scheduler (value handed over) but which have not resumed yet. Harnesses use it to timestamp deliveries exactly.
func InFlightRecv(ch any) int {
	s := active.Load()
	if s == nil {
		return 0
	}
	id := reflect.ValueOf(ch).Pointer()
	n := 0
	for _, u := range s.threads {
		if u.done || u.op == nil || u.op.kind != opSelect || !u.op.completed || u.op.chosen < 0 || u.op.chosen >= len(u.op.cases) {
			continue
		}
		c := u.op.cases[u.op.chosen]
		if c.dir == reflect.SelectRecv && c.ch.IsValid() && !c.ch.IsNil() && c.ch.Pointer() == id && u.op.recvOK {
			n++
		}
	}
	return n
}
