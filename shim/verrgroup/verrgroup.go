// Package verrgroup is the drop-in replacement of golang.org/x/sync/errgroup for
// instrumented files: goroutines are spawned as controlled threads and Wait is a
// visible blocking point under an active vsched exploration; otherwise it behaves
// like errgroup (implemented on plain goroutines).
package verrgroup

import (
	"context"
	"fmt"
	"sync"

	"github.com/ethereum/go-ethereum/internal/verif/vsched"
)

type token struct{}

// Group mirrors errgroup.Group.
type Group struct {
	cancel func(error)

	// pass-through state
	wg  sync.WaitGroup
	sem chan token

	// controlled state
	active int
	limit  int

	errOnce sync.Once
	mu      sync.Mutex
	err     error
}

// WithContext mirrors errgroup.WithContext.
func WithContext(ctx context.Context) (*Group, context.Context) {
	ctx, cancel := context.WithCancelCause(ctx)
	return &Group{cancel: cancel}, ctx
}

func (g *Group) done() {
	if vsched.Active() {
		g.active--
		return
	}
	if g.sem != nil {
		<-g.sem
	}
	g.wg.Done()
}

func (g *Group) setErr(err error) {
	g.mu.Lock()
	if g.err == nil {
		g.err = err
		if g.cancel != nil {
			g.cancel(g.err)
		}
	}
	g.mu.Unlock()
}

// Wait mirrors (*errgroup.Group).Wait.
func (g *Group) Wait() error {
	if vsched.Active() {
		if !vsched.Aborting() {
			vsched.Block("errgroup.Wait", func() bool { return g.active <= 0 })
		}
	} else {
		g.wg.Wait()
	}
	if g.cancel != nil {
		g.cancel(g.err)
	}
	return g.err
}

// Go mirrors (*errgroup.Group).Go.
func (g *Group) Go(f func() error) {
	if vsched.Active() {
		if vsched.Aborting() {
			return
		}
		if g.limit > 0 {
			vsched.Block("errgroup.Go(limit)", func() bool { return g.active < g.limit })
		}
		g.active++
		vsched.GoNamed("", func() {
			defer g.done()
			if err := f(); err != nil {
				g.setErr(err)
			}
		})
		return
	}
	if g.sem != nil {
		g.sem <- token{}
	}
	g.wg.Add(1)
	go func() {
		defer g.done()
		if err := f(); err != nil {
			g.setErr(err)
		}
	}()
}

// TryGo mirrors (*errgroup.Group).TryGo.
func (g *Group) TryGo(f func() error) bool {
	if vsched.Active() {
		if g.limit > 0 && g.active >= g.limit {
			return false
		}
		g.Go(f)
		return true
	}
	if g.sem != nil {
		select {
		case g.sem <- token{}:
		default:
			return false
		}
	}
	g.wg.Add(1)
	go func() {
		defer g.done()
		if err := f(); err != nil {
			g.setErr(err)
		}
	}()
	return true
}

// SetLimit mirrors (*errgroup.Group).SetLimit.
func (g *Group) SetLimit(n int) {
	if n < 0 {
		g.sem = nil
		g.limit = 0
		return
	}
	if len(g.sem) != 0 || g.active != 0 {
		panic(fmt.Errorf("errgroup: modify limit while %v goroutines in the group are still active", len(g.sem)+g.active))
	}
	g.sem = make(chan token, n)
	g.limit = n
}
