// Package vsync is the drop-in replacement of package sync used by instrumented
// files. Under an active vsched exploration lock operations are scheduling points
// and blocking is visible to the scheduler; otherwise the real primitives are used.
package vsync

import (
	"sync"

	"github.com/ethereum/go-ethereum/internal/verif/vsched"
)

type (
	Map    = sync.Map
	Pool   = sync.Pool
	Locker = sync.Locker
)

func OnceFunc(f func()) func()                                 { return sync.OnceFunc(f) }
func OnceValue[T any](f func() T) func() T                     { return sync.OnceValue(f) }
func OnceValues[T1, T2 any](f func() (T1, T2)) func() (T1, T2) { return sync.OnceValues(f) }

// unlockYield makes every Unlock/RUnlock a scheduling point that is taken BEFORE the lock is released. With blocking
// Lock only, a preemption inside a critical section is indistinguishable from one right after it (the others can only
// block), so the point is normally omitted. It becomes observable as soon as the instrumented code uses TryLock /
// TryRLock (a failed attempt is an outcome): tools/vinstr emits an init() calling SetUnlockIsSchedulingPoint for every
// instrumented file that contains such a call, so the setting is fixed before the first execution (determinism).
var unlockYield bool

// SetUnlockIsSchedulingPoint switches the extra scheduling point on (see unlockYield).
func SetUnlockIsSchedulingPoint() { unlockYield = true }

func unlockPoint(what string) {
	if unlockYield && !vsched.Aborting() {
		vsched.Yield(what)
	}
}

// Mutex mirrors sync.Mutex.
type Mutex struct {
	mu   sync.Mutex
	held bool // controlled-mode state
}

func (m *Mutex) Lock() {
	if vsched.Active() {
		if vsched.Aborting() {
			m.held = true
			return
		}
		vsched.Block("Mutex.Lock", func() bool { return !m.held })
		m.held = true
		return
	}
	m.mu.Lock()
}

func (m *Mutex) TryLock() bool {
	if vsched.Active() {
		if !vsched.Aborting() {
			vsched.Yield("Mutex.TryLock")
		}
		if m.held {
			return false
		}
		m.held = true
		return true
	}
	return m.mu.TryLock()
}

func (m *Mutex) Unlock() {
	if vsched.Active() {
		if !m.held && !vsched.Aborting() {
			panic("sync: unlock of unlocked mutex")
		}
		unlockPoint("Mutex.Unlock")
		m.held = false
		return
	}
	m.mu.Unlock()
}

// RWMutex mirrors sync.RWMutex (without writer preference).
type RWMutex struct {
	mu      sync.RWMutex
	writer  bool
	readers int
}

func (m *RWMutex) Lock() {
	if vsched.Active() {
		if vsched.Aborting() {
			m.writer = true
			return
		}
		vsched.Block("RWMutex.Lock", func() bool { return !m.writer && m.readers == 0 })
		m.writer = true
		return
	}
	m.mu.Lock()
}

func (m *RWMutex) TryLock() bool {
	if vsched.Active() {
		if !vsched.Aborting() {
			vsched.Yield("RWMutex.TryLock")
		}
		if m.writer || m.readers > 0 {
			return false
		}
		m.writer = true
		return true
	}
	return m.mu.TryLock()
}

func (m *RWMutex) Unlock() {
	if vsched.Active() {
		if !m.writer && !vsched.Aborting() {
			panic("sync: Unlock of unlocked RWMutex")
		}
		unlockPoint("RWMutex.Unlock")
		m.writer = false
		return
	}
	m.mu.Unlock()
}

func (m *RWMutex) RLock() {
	if vsched.Active() {
		if vsched.Aborting() {
			m.readers++
			return
		}
		vsched.Block("RWMutex.RLock", func() bool { return !m.writer })
		m.readers++
		return
	}
	m.mu.RLock()
}

func (m *RWMutex) TryRLock() bool {
	if vsched.Active() {
		if !vsched.Aborting() {
			vsched.Yield("RWMutex.TryRLock")
		}
		if m.writer {
			return false
		}
		m.readers++
		return true
	}
	return m.mu.TryRLock()
}

func (m *RWMutex) RUnlock() {
	if vsched.Active() {
		if m.readers <= 0 && !vsched.Aborting() {
			panic("sync: RUnlock of unlocked RWMutex")
		}
		unlockPoint("RWMutex.RUnlock")
		if m.readers > 0 {
			m.readers--
		}
		return
	}
	m.mu.RUnlock()
}

type rlocker RWMutex

func (r *rlocker) Lock()   { (*RWMutex)(r).RLock() }
func (r *rlocker) Unlock() { (*RWMutex)(r).RUnlock() }

func (m *RWMutex) RLocker() Locker { return (*rlocker)(m) }

// WaitGroup mirrors sync.WaitGroup.
type WaitGroup struct {
	wg sync.WaitGroup
	n  int
}

func (w *WaitGroup) Add(d int) {
	if vsched.Active() {
		w.n += d
		if w.n < 0 && !vsched.Aborting() {
			panic("sync: negative WaitGroup counter")
		}
		return
	}
	w.wg.Add(d)
}

func (w *WaitGroup) Done() { w.Add(-1) }

func (w *WaitGroup) Wait() {
	if vsched.Active() {
		if vsched.Aborting() {
			return
		}
		vsched.Block("WaitGroup.Wait", func() bool { return w.n <= 0 })
		return
	}
	w.wg.Wait()
}

// Go mirrors WaitGroup.Go of newer Go versions.
func (w *WaitGroup) Go(f func()) {
	w.Add(1)
	vsched.Go(func() {
		defer w.Done()
		f()
	})
}

// Once mirrors sync.Once.
type Once struct {
	once    sync.Once
	done    bool
	running bool
}

func (o *Once) Do(f func()) {
	if vsched.Active() {
		if o.done {
			return
		}
		if vsched.Aborting() {
			return
		}
		vsched.Block("Once.Do", func() bool { return !o.running })
		if o.done {
			return
		}
		o.running = true
		defer func() {
			o.done = true
			o.running = false
		}()
		f()
		return
	}
	o.once.Do(f)
}

// Cond mirrors sync.Cond.
type Cond struct {
	L       Locker
	c       *sync.Cond
	waiters []*condWaiter
}

type condWaiter struct{ signaled bool }

func NewCond(l Locker) *Cond { return &Cond{L: l, c: sync.NewCond(l)} }

func (c *Cond) Wait() {
	if vsched.Active() {
		if vsched.Aborting() {
			return
		}
		w := &condWaiter{}
		c.waiters = append(c.waiters, w)
		c.L.Unlock()
		vsched.Block("Cond.Wait", func() bool { return w.signaled })
		c.L.Lock()
		return
	}
	c.c.Wait()
}

func (c *Cond) Signal() {
	if vsched.Active() {
		if len(c.waiters) > 0 {
			c.waiters[0].signaled = true
			c.waiters = c.waiters[1:]
		}
		return
	}
	c.c.Signal()
}

func (c *Cond) Broadcast() {
	if vsched.Active() {
		for _, w := range c.waiters {
			w.signaled = true
		}
		c.waiters = nil
		return
	}
	c.c.Broadcast()
}
