// Package crashkv wraps an in-memory ethdb.KeyValueStore and records an ordered
// write log (single Put/Delete/DeleteRange, each batch.Write as ONE atomic entry)
// together with the positions of SyncKeyValue, so that the durable image after a
// crash can be materialised: everything up to the last sync before the crash point
// plus ANY PREFIX of the later entries (WAL semantics of pebble/leveldb: order is
// preserved, batches are atomic, unsynced tail may be lost).
//
// Every entry also records the value of an external clock (normally the length of
// the vos file-system event log) at the time it was written, which gives the total
// order of key-value writes and file-system events ("one crash clock").
package crashkv

import (
	"sync"

	"github.com/ethereum/go-ethereum/ethdb"
	"github.com/ethereum/go-ethereum/ethdb/memorydb"
)

// OpKind of a logged operation.
type OpKind uint8

const (
	OpPut OpKind = iota + 1
	OpDelete
	OpDeleteRange
)

// Op is one key-value mutation.
type Op struct {
	Kind OpKind
	Key  []byte
	Val  []byte // value (Put) or range end (DeleteRange)
}

// Entry is one atomic unit of the write log.
type Entry struct {
	Ops   []Op
	Sync  bool // SyncKeyValue marker (no ops)
	Clock int  // external clock when the entry was written
}

// DB is the recording store.
type DB struct {
	ethdb.KeyValueStore // live store (memorydb)

	mu    sync.Mutex
	base  [][2][]byte // content before the log started (durable)
	log   []Entry
	clock func() int
}

// New returns an empty recording store. clock may be nil.
func New(clock func() int) *DB {
	return &DB{KeyValueStore: memorydb.New(), clock: clock}
}

// Wrap starts a new log on top of an existing in-memory store whose current
// content is considered durable.
func Wrap(db *memorydb.Database, clock func() int) *DB {
	d := &DB{KeyValueStore: db, clock: clock}
	it := db.NewIterator(nil, nil)
	for it.Next() {
		d.base = append(d.base, [2][]byte{append([]byte{}, it.Key()...), append([]byte{}, it.Value()...)})
	}
	it.Release()
	return d
}

func (d *DB) now() int {
	if d.clock == nil {
		return 0
	}
	return d.clock()
}

func (d *DB) add(e Entry) {
	e.Clock = d.now()
	d.mu.Lock()
	d.log = append(d.log, e)
	d.mu.Unlock()
}

func cp(b []byte) []byte { return append([]byte{}, b...) }

func (d *DB) Put(key, value []byte) error {
	if err := d.KeyValueStore.Put(key, value); err != nil {
		return err
	}
	d.add(Entry{Ops: []Op{{OpPut, cp(key), cp(value)}}})
	return nil
}

func (d *DB) Delete(key []byte) error {
	if err := d.KeyValueStore.Delete(key); err != nil {
		return err
	}
	d.add(Entry{Ops: []Op{{OpDelete, cp(key), nil}}})
	return nil
}

func (d *DB) DeleteRange(start, end []byte) error {
	if err := d.KeyValueStore.DeleteRange(start, end); err != nil {
		return err
	}
	d.add(Entry{Ops: []Op{{OpDeleteRange, cp(start), cp(end)}}})
	return nil
}

func (d *DB) SyncKeyValue() error {
	if err := d.KeyValueStore.SyncKeyValue(); err != nil {
		return err
	}
	d.add(Entry{Sync: true})
	return nil
}

// Close is a no-op so that the recording store survives the Close of the database
// stack built on top of it (a harness keeps using it across simulated restarts).
func (d *DB) Close() error { return nil }

func (d *DB) NewBatch() ethdb.Batch { return &batch{db: d, inner: d.KeyValueStore.NewBatch()} }

func (d *DB) NewBatchWithSize(size int) ethdb.Batch {
	return &batch{db: d, inner: d.KeyValueStore.NewBatchWithSize(size)}
}

type batch struct {
	db    *DB
	inner ethdb.Batch
	ops   []Op
}

func (b *batch) Put(key, value []byte) error {
	b.ops = append(b.ops, Op{OpPut, cp(key), cp(value)})
	return b.inner.Put(key, value)
}

func (b *batch) Delete(key []byte) error {
	b.ops = append(b.ops, Op{OpDelete, cp(key), nil})
	return b.inner.Delete(key)
}

func (b *batch) DeleteRange(start, end []byte) error {
	b.ops = append(b.ops, Op{OpDeleteRange, cp(start), cp(end)})
	return b.inner.DeleteRange(start, end)
}

func (b *batch) ValueSize() int { return b.inner.ValueSize() }

func (b *batch) Write() error {
	if err := b.inner.Write(); err != nil {
		return err
	}
	if len(b.ops) > 0 {
		b.db.add(Entry{Ops: append([]Op(nil), b.ops...)})
	}
	return nil
}

func (b *batch) Reset() {
	b.inner.Reset()
	b.ops = nil
}

func (b *batch) Replay(w ethdb.KeyValueWriter) error { return b.inner.Replay(w) }

func (b *batch) Close() { b.inner.Close() }

// Len is the number of log entries so far.
func (d *DB) Len() int {
	d.mu.Lock()
	defer d.mu.Unlock()
	return len(d.log)
}

// Entries returns a copy of the log.
func (d *DB) Entries() []Entry {
	d.mu.Lock()
	defer d.mu.Unlock()
	return append([]Entry(nil), d.log...)
}

// CountAt returns how many log entries had been written when the external clock
// was still <= clock, i.e. the KV log position that belongs to a crash after the
// first `clock` file-system events. Entries written at exactly that clock value are
// ambiguous (KV write and no FS event in between), use Len-based positions for them.
func (d *DB) CountAt(clock int) int {
	d.mu.Lock()
	defer d.mu.Unlock()
	n := 0
	for _, e := range d.log {
		if e.Clock < clock {
			n++
		}
	}
	return n
}

// LastSync returns the number of leading entries of log[:upto] that are durable
// because a SyncKeyValue marker follows them (0 if there is none).
func (d *DB) LastSync(upto int) int {
	d.mu.Lock()
	defer d.mu.Unlock()
	if upto > len(d.log) {
		upto = len(d.log)
	}
	last := 0
	for i := 0; i < upto; i++ {
		if d.log[i].Sync {
			last = i + 1
		}
	}
	return last
}

// Image materialises the store that holds the base content plus the first keep
// log entries. For a crash after `upto` entries every keep with
// LastSync(upto) <= keep <= upto is an admissible durable image.
func (d *DB) Image(keep int) *memorydb.Database {
	d.mu.Lock()
	defer d.mu.Unlock()
	if keep > len(d.log) {
		keep = len(d.log)
	}
	out := memorydb.New()
	for _, kv := range d.base {
		out.Put(kv[0], kv[1])
	}
	for _, e := range d.log[:keep] {
		for _, op := range e.Ops {
			switch op.Kind {
			case OpPut:
				out.Put(op.Key, op.Val)
			case OpDelete:
				out.Delete(op.Key)
			case OpDeleteRange:
				out.DeleteRange(op.Key, op.Val)
			}
		}
	}
	return out
}
