// Package progx is the shared EVM program-enumeration helper of the /verif
// harnesses (engine E5): rule sets, opcode bytes, a tiny assembler, value and
// unit alphabets and enumeration helpers.
//
// It deliberately does NOT import core/vm (so that in-package harnesses of
// core/vm can use it without an import cycle): opcode values are transcribed
// from the Yellow Paper / EIPs as plain bytes. Dependencies: common, params.
package progx

import (
	"math/big"

	"github.com/ethereum/go-ethereum/params"
)

// RuleSet is one rule set expressible by a chain configuration. The EVM
// evaluates `Config.Rules(Number, Merge, Time)`; Merge must be passed as
// "BlockContext.Random != nil".
type RuleSet struct {
	Name   string
	Index  int // position in the fork order (Frontier = 0)
	Config *params.ChainConfig
	Number *big.Int
	Time   uint64
	Merge  bool // BlockContext.Random must be non-nil
}

// ForkNames lists the rule sets in activation order.
var ForkNames = []string{
	"Frontier", "Homestead", "TangerineWhistle", "SpuriousDragon", "Byzantium",
	"Constantinople", "Petersburg", "Istanbul", "Berlin", "London", "Merge",
	"Shanghai", "Cancun", "Prague", "Osaka", "Amsterdam", "Bogota",
}

func u64(v uint64) *uint64 { return &v }

// Fork returns the rule set in which exactly the forks up to and including
// `name` are active (at block 0 / time 0) and every later fork is not scheduled.
func Fork(name string) RuleSet {
	idx := -1
	for i, n := range ForkNames {
		if n == name {
			idx = i
		}
	}
	if idx < 0 {
		panic("progx: unknown fork " + name)
	}
	zero := func(at int) *big.Int {
		if idx >= at {
			return big.NewInt(0)
		}
		return nil
	}
	zt := func(at int) *uint64 {
		if idx >= at {
			return u64(0)
		}
		return nil
	}
	c := &params.ChainConfig{
		ChainID:             big.NewInt(1),
		HomesteadBlock:      zero(1),
		EIP150Block:         zero(2),
		EIP155Block:         zero(3),
		EIP158Block:         zero(3),
		ByzantiumBlock:      zero(4),
		ConstantinopleBlock: zero(5),
		PetersburgBlock:     zero(6),
		IstanbulBlock:       zero(7),
		MuirGlacierBlock:    zero(7),
		BerlinBlock:         zero(8),
		LondonBlock:         zero(9),
		ArrowGlacierBlock:   zero(9),
		GrayGlacierBlock:    zero(9),
		MergeNetsplitBlock:  zero(10),
		ShanghaiTime:        zt(11),
		CancunTime:          zt(12),
		PragueTime:          zt(13),
		OsakaTime:           zt(14),
		AmsterdamTime:       zt(15),
		BogotaTime:          zt(16),
		Ethash:              new(params.EthashConfig),
	}
	if idx == 5 {
		// Constantinople without Petersburg: a nil PetersburgBlock would mean "same as Constantinople"
		c.PetersburgBlock = new(big.Int).SetUint64(1 << 62)
	}
	if idx >= 10 {
		c.TerminalTotalDifficulty = big.NewInt(0)
	}
	if idx >= 12 {
		c.BlobScheduleConfig = &params.BlobScheduleConfig{
			Cancun: params.DefaultCancunBlobConfig,
			Prague: params.DefaultPragueBlobConfig,
		}
	}
	return RuleSet{Name: name, Index: idx, Config: c, Number: big.NewInt(0), Time: 0, Merge: idx >= 10}
}

// AllForks returns every rule set Frontier..Bogota in order.
func AllForks() []RuleSet {
	out := make([]RuleSet, len(ForkNames))
	for i, n := range ForkNames {
		out[i] = Fork(n)
	}
	return out
}

// Forks returns the named rule sets.
func Forks(names ...string) []RuleSet {
	out := make([]RuleSet, len(names))
	for i, n := range names {
		out[i] = Fork(n)
	}
	return out
}

// ForksFrom returns the rule sets from `name` (inclusive) to the newest.
func ForksFrom(name string) []RuleSet {
	var out []RuleSet
	for _, f := range AllForks() {
		if f.Index >= Fork(name).Index {
			out = append(out, f)
		}
	}
	return out
}

// At reports whether this rule set includes the named fork.
func (r RuleSet) At(name string) bool { return r.Index >= Fork(name).Index }
