package progx

import (
	"math/big"

	"github.com/ethereum/go-ethereum/common"
)

// Well-known accounts used by the program spaces.
var (
	AddrA      = common.HexToAddress("0x00000000000000000000000000000000000a11ce") // caller contract A
	AddrB      = common.HexToAddress("0x0000000000000000000000000000000000000b0b") // callee contract B
	AddrC      = common.HexToAddress("0x0000000000000000000000000000000000000ca7") // third contract / beneficiary
	AddrOrigin = common.HexToAddress("0x000000000000000000000000000000000000e0a0") // externally owned sender
)

func pow2(n uint) *big.Int { return new(big.Int).Lsh(big.NewInt(1), n) }

// Values is the operand alphabet V of DESIGN.md §2.6:
// {0,1,2,0x20,0xff,2^64,2^255,2^256-1,<addr A>,<addr B>}.
func Values() []*big.Int {
	return []*big.Int{
		big.NewInt(0), big.NewInt(1), big.NewInt(2), big.NewInt(0x20), big.NewInt(0xff),
		pow2(64), pow2(255), new(big.Int).Sub(pow2(256), big.NewInt(1)),
		new(big.Int).SetBytes(AddrA[:]), new(big.Int).SetBytes(AddrB[:]),
	}
}

// Prologue is a named code prefix that seeds the operand stack.
type Prologue struct {
	Name  string
	Code  []byte
	Depth int // number of stack items it leaves
}

// pushAll builds a prologue pushing vals (last value ends on top).
func pushAll(name string, vals ...*big.Int) Prologue {
	p := New()
	for _, v := range vals {
		p.PushBig(v)
	}
	return Prologue{Name: name, Code: p.Bytes(), Depth: len(vals)}
}

// Prologues returns the stack prologues used in front of the "all byte
// strings" program space. The first three are the quick-tier selection:
// small values, huge values, addresses/mixed. Every prologue leaves >= 7 items
// so that all opcodes up to 7 operands (CALL) find their operands; "full"
// leaves 1023 items (one below the limit) and "empty" none.
func Prologues() []Prologue {
	v := Values()
	zero, one, two, w32, ff, p64, p255, max, a, b := v[0], v[1], v[2], v[3], v[4], v[5], v[6], v[7], v[8], v[9]
	out := []Prologue{
		pushAll("small", two, one, zero, w32, zero, one, w32, zero), // top: 0,0x20,1,0,0x20,0,1,2
		pushAll("huge", max, p255, p64, max, p64, max, max, max),    // every operand enormous
		pushAll("mixed", zero, w32, zero, w32, zero, one, b, p64),   // top: gas=2^64, addr=B, value=1, in/out areas small  (CALL-shaped)
		pushAll("empty"), //
		pushAll("zeros", zero, zero, zero, zero, zero, zero, zero, zero), //
		pushAll("ones", one, one, one, one, one, one, one, one),
		pushAll("bigoff", zero, one, p64, w32, p64, one, p64, w32), // sizes small, offsets 2^64 and vice versa
		pushAll("bigsize", w32, p64, w32, p64, zero, one, a, ff),
		pushAll("callA", zero, zero, zero, zero, zero, a, max),              // CALL(gas=max, A, 0, 0,0,0,0): self call
		pushAll("create", zero, zero, zero, w32, zero, one, w32, zero, one), // CREATE(value 1, off 0, size 0x20)
		pushAll("signed", p255, max, p255, max, one, p255, max, p255),
		pushAll("precomp", one, w32, w32, w32, zero, zero, two, max), // CALL(gas=max, addr=2 (sha256), 0, in 0..32, out 32..64)
	}
	// 1023 items: PUSH1 1 then 1022 DUP1
	full := New().Push(1)
	for i := 0; i < 1022; i++ {
		full.Op(DUP1)
	}
	out = append(out, Prologue{Name: "full", Code: full.Bytes(), Depth: 1023})
	return out
}

// AllBytes calls fn for every byte string of length exactly n over all 256
// values whose first byte is `first` (shard key; pass -1 for n == 0). The slice
// passed to fn is reused.
func AllBytes(n int, first int, fn func(s []byte)) {
	if n == 0 {
		fn(nil)
		return
	}
	buf := make([]byte, n)
	buf[0] = byte(first)
	var rec func(i int)
	rec = func(i int) {
		if i == n {
			fn(buf)
			return
		}
		for b := 0; b < 256; b++ {
			buf[i] = byte(b)
			rec(i + 1)
		}
	}
	rec(1)
}

// Sequences calls fn for every sequence of exactly k indices in [0,n); the slice is reused.
func Sequences(n, k int, fn func(idx []int)) {
	idx := make([]int, k)
	var rec func(i int)
	rec = func(i int) {
		if i == k {
			fn(idx)
			return
		}
		for v := 0; v < n; v++ {
			idx[i] = v
			rec(i + 1)
		}
	}
	rec(0)
}
