package progx

import (
	"math/big"

	"github.com/ethereum/go-ethereum/common"
)

// Opcode bytes, transcribed from the Yellow Paper appendix H and the EIPs that
// added opcodes (not taken from core/vm, see package comment).
const (
	STOP, ADD, MUL, SUB, DIV, SDIV, MOD, SMOD, ADDMOD, MULMOD, EXP, SIGNEXTEND byte = 0x00, 0x01, 0x02, 0x03, 0x04, 0x05, 0x06, 0x07, 0x08, 0x09, 0x0a, 0x0b

	LT, GT, SLT, SGT, EQ, ISZERO, AND, OR, XOR, NOT, BYTE, SHL, SHR, SAR, CLZ byte = 0x10, 0x11, 0x12, 0x13, 0x14, 0x15, 0x16, 0x17, 0x18, 0x19, 0x1a, 0x1b, 0x1c, 0x1d, 0x1e

	KECCAK256 byte = 0x20

	ADDRESS, BALANCE, ORIGIN, CALLER, CALLVALUE, CALLDATALOAD, CALLDATASIZE, CALLDATACOPY               byte = 0x30, 0x31, 0x32, 0x33, 0x34, 0x35, 0x36, 0x37
	CODESIZE, CODECOPY, GASPRICE, EXTCODESIZE, EXTCODECOPY, RETURNDATASIZE, RETURNDATACOPY, EXTCODEHASH byte = 0x38, 0x39, 0x3a, 0x3b, 0x3c, 0x3d, 0x3e, 0x3f

	BLOCKHASH, COINBASE, TIMESTAMP, NUMBER, PREVRANDAO, GASLIMIT, CHAINID, SELFBALANCE, BASEFEE, BLOBHASH, BLOBBASEFEE, SLOTNUM byte = 0x40, 0x41, 0x42, 0x43, 0x44, 0x45, 0x46, 0x47, 0x48, 0x49, 0x4a, 0x4b

	POP, MLOAD, MSTORE, MSTORE8, SLOAD, SSTORE, JUMP, JUMPI, PC, MSIZE, GAS, JUMPDEST, TLOAD, TSTORE, MCOPY, PUSH0 byte = 0x50, 0x51, 0x52, 0x53, 0x54, 0x55, 0x56, 0x57, 0x58, 0x59, 0x5a, 0x5b, 0x5c, 0x5d, 0x5e, 0x5f

	PUSH1, PUSH2, PUSH4, PUSH8, PUSH16, PUSH20, PUSH32 byte = 0x60, 0x61, 0x63, 0x67, 0x6f, 0x73, 0x7f
	DUP1, DUP2, DUP3, DUP4, DUP16                      byte = 0x80, 0x81, 0x82, 0x83, 0x8f
	SWAP1, SWAP2, SWAP3, SWAP16                        byte = 0x90, 0x91, 0x92, 0x9f
	LOG0, LOG1, LOG2, LOG3, LOG4                       byte = 0xa0, 0xa1, 0xa2, 0xa3, 0xa4

	DUPN, SWAPN, EXCHANGE byte = 0xe6, 0xe7, 0xe8 // EIP-8024

	CREATE, CALL, CALLCODE, RETURN, DELEGATECALL, CREATE2, STATICCALL, REVERT, INVALID, SELFDESTRUCT byte = 0xf0, 0xf1, 0xf2, 0xf3, 0xf4, 0xf5, 0xfa, 0xfd, 0xfe, 0xff
)

// PushOp returns the opcode PUSHn (1 <= n <= 32).
func PushOp(n int) byte {
	if n < 1 || n > 32 {
		panic("progx: PushOp out of range")
	}
	return 0x5f + byte(n)
}

// Prog is a bytecode under construction. All methods append and return the
// receiver so that calls chain; only PUSH1..PUSH32 are emitted by the Push
// helpers (valid in every rule set).
type Prog []byte

// New returns an empty program.
func New() *Prog { return &Prog{} }

// Bytes returns a copy of the code.
func (p *Prog) Bytes() []byte { return append([]byte{}, *p...) }

// Len returns the current length (the pc of the next instruction).
func (p *Prog) Len() int { return len(*p) }

// Op appends raw opcode bytes.
func (p *Prog) Op(ops ...byte) *Prog { *p = append(*p, ops...); return p }

// Raw appends raw bytes (same as Op, for readability when appending data).
func (p *Prog) Raw(b []byte) *Prog { *p = append(*p, b...); return p }

// PushBytes appends the shortest PUSHn holding b (b may be empty => PUSH1 0; longer than 32 => panic).
func (p *Prog) PushBytes(b []byte) *Prog {
	for len(b) > 1 && b[0] == 0 {
		b = b[1:]
	}
	if len(b) == 0 {
		b = []byte{0}
	}
	if len(b) > 32 {
		panic("progx: push wider than 32 bytes")
	}
	*p = append(*p, PushOp(len(b)))
	*p = append(*p, b...)
	return p
}

// Push appends a push of a small constant.
func (p *Prog) Push(v uint64) *Prog { return p.PushBytes(new(big.Int).SetUint64(v).Bytes()) }

// PushBig appends a push of v (0 <= v < 2^256).
func (p *Prog) PushBig(v *big.Int) *Prog { return p.PushBytes(v.Bytes()) }

// PushAddr appends PUSH20 addr.
func (p *Prog) PushAddr(a common.Address) *Prog {
	*p = append(*p, PUSH20)
	*p = append(*p, a[:]...)
	return p
}

// PushN appends PUSHn with exactly n immediate bytes (v is left-padded / must fit).
func (p *Prog) PushN(n int, v []byte) *Prog {
	if len(v) > n {
		panic("progx: PushN value too wide")
	}
	*p = append(*p, PushOp(n))
	*p = append(*p, make([]byte, n-len(v))...)
	*p = append(*p, v...)
	return p
}

// Mstore appends MSTORE(offset, word) with a big-endian 32 byte word.
func (p *Prog) Mstore(offset uint64, word []byte) *Prog {
	return p.PushBytes(word).Push(offset).Op(MSTORE)
}

// StoreCode appends code that writes `data` into memory at offset 0 (32-byte
// chunks via MSTORE) and leaves nothing on the stack; returns len(data).
func (p *Prog) StoreCode(data []byte) *Prog {
	for off := 0; off < len(data); off += 32 {
		chunk := make([]byte, 32)
		copy(chunk, data[off:])
		*p = append(*p, PUSH32)
		*p = append(*p, chunk...)
		p.Push(uint64(off)).Op(MSTORE)
	}
	return p
}

// Return appends RETURN(offset, size).
func (p *Prog) Return(offset, size uint64) *Prog { return p.Push(size).Push(offset).Op(RETURN) }

// Revert appends REVERT(offset, size).
func (p *Prog) Revert(offset, size uint64) *Prog { return p.Push(size).Push(offset).Op(REVERT) }

// Sstore appends SSTORE(key, val).
func (p *Prog) Sstore(key, val uint64) *Prog { return p.Push(val).Push(key).Op(SSTORE) }

// Tstore appends TSTORE(key, val).
func (p *Prog) Tstore(key, val uint64) *Prog { return p.Push(val).Push(key).Op(TSTORE) }

// CallKind appends a CALL-family instruction `op` (CALL, CALLCODE,
// DELEGATECALL, STATICCALL) to addr with the given gas (nil = all: GAS opcode),
// value (ignored for DELEGATECALL/STATICCALL), no input, no output area. The
// success flag is left on the stack.
func (p *Prog) CallKind(op byte, addr common.Address, gas *uint64, value uint64) *Prog {
	p.Push(0).Push(0).Push(0).Push(0) // outSize outOff inSize inOff
	if op == CALL || op == CALLCODE {
		p.Push(value)
	}
	p.PushAddr(addr)
	if gas == nil {
		p.Op(GAS)
	} else {
		p.Push(*gas)
	}
	return p.Op(op)
}

// Create appends code that stores initcode in memory at 0 and runs
// CREATE(value, 0, len) or CREATE2(value, 0, len, salt); the new address (or 0)
// is left on the stack.
func (p *Prog) Create(op byte, initcode []byte, value, salt uint64) *Prog {
	p.StoreCode(initcode)
	if op == CREATE2 {
		p.Push(salt)
	}
	return p.Push(uint64(len(initcode))).Push(0).Push(value).Op(op)
}

// InitcodeReturning returns an initcode that deploys `runtime` (code copied with CODECOPY).
func InitcodeReturning(runtime []byte) []byte {
	// PUSH2 len, PUSH2 off, PUSH1 0, CODECOPY, PUSH2 len, PUSH1 0, RETURN  ++ runtime
	const hdr = 3 + 3 + 2 + 1 + 3 + 2 + 1
	p := New()
	l := []byte{byte(len(runtime) >> 8), byte(len(runtime))}
	p.Op(PUSH2).Raw(l).Op(PUSH2, 0, hdr).Op(PUSH1, 0, CODECOPY)
	p.Op(PUSH2).Raw(l).Op(PUSH1, 0, RETURN)
	if p.Len() != hdr {
		panic("progx: initcode header size")
	}
	return append(p.Bytes(), runtime...)
}

// Concat concatenates code fragments.
func Concat(parts ...[]byte) []byte {
	var out []byte
	for _, x := range parts {
		out = append(out, x...)
	}
	return out
}
