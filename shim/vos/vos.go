// Package vos is an in-memory, crash-recording file system that stands in for the
// subset of package os used by the go-ethereum freezer (core/rawdb/freezer*.go),
// the pathdb journal and similar code. tools/vinstr swaps the import "os" of the
// listed files for this package (keeping the local name `os`), so `os.OpenFile`,
// `*os.File`, `os.Rename`, ... resolve to the identifiers below.
//
// Routing: a path below Prefix ("/@vos/<id>/...") belongs to the virtual file
// system registered under <id> (see New); every other path falls through to the
// real package os, so an instrumented build behaves normally for ordinary tests.
//
// Recording: a virtual FS appends every mutating operation (create, write,
// truncate, fsync, remove, rename, directory fsync) to one global event log.
// crash.go turns "the first k events + a loss pattern" into a fresh FS image.
package vos

import (
	"errors"
	"fmt"
	"io"
	"io/fs"
	"os"
	"path/filepath"
	"sort"
	"strconv"
	"strings"
	"sync"
	"sync/atomic"
	"time"
)

// Prefix is the root of all virtual paths.
const Prefix = "/@vos/"

// ---------------------------------------------------------------------------
// re-exports of package os (constants, variables, types, error helpers)

const (
	O_RDONLY = os.O_RDONLY
	O_WRONLY = os.O_WRONLY
	O_RDWR   = os.O_RDWR
	O_APPEND = os.O_APPEND
	O_CREATE = os.O_CREATE
	O_EXCL   = os.O_EXCL
	O_SYNC   = os.O_SYNC
	O_TRUNC  = os.O_TRUNC

	ModeDir     = os.ModeDir
	ModeAppend  = os.ModeAppend
	ModeSymlink = os.ModeSymlink
	ModePerm    = os.ModePerm
	ModeType    = os.ModeType

	PathSeparator = os.PathSeparator
	DevNull       = os.DevNull
)

var (
	ErrInvalid          = os.ErrInvalid
	ErrPermission       = os.ErrPermission
	ErrExist            = os.ErrExist
	ErrNotExist         = os.ErrNotExist
	ErrClosed           = os.ErrClosed
	ErrDeadlineExceeded = os.ErrDeadlineExceeded

	Stdin  = &File{real: os.Stdin}
	Stdout = &File{real: os.Stdout}
	Stderr = &File{real: os.Stderr}

	Args = os.Args
)

type (
	FileInfo  = os.FileInfo
	FileMode  = os.FileMode
	PathError = os.PathError
	LinkError = os.LinkError
	DirEntry  = os.DirEntry
	Signal    = os.Signal
)

func IsNotExist(err error) bool   { return os.IsNotExist(err) }
func IsExist(err error) bool      { return os.IsExist(err) }
func IsPermission(err error) bool { return os.IsPermission(err) }
func IsTimeout(err error) bool    { return os.IsTimeout(err) }
func Getenv(k string) string      { return os.Getenv(k) }
func LookupEnv(k string) (string, bool) {
	return os.LookupEnv(k)
}
func Setenv(k, v string) error  { return os.Setenv(k, v) }
func Unsetenv(k string) error   { return os.Unsetenv(k) }
func Environ() []string         { return os.Environ() }
func TempDir() string           { return os.TempDir() }
func Getpid() int               { return os.Getpid() }
func Getwd() (string, error)    { return os.Getwd() }
func Hostname() (string, error) { return os.Hostname() }
func UserHomeDir() (string, error) {
	return os.UserHomeDir()
}
func Exit(code int) {
	if exitPanics.Load() {
		panic(ExitCalled{Code: code})
	}
	os.Exit(code)
}
func Executable() (string, error) { return os.Executable() }
func Getpagesize() int            { return os.Getpagesize() }
func SameFile(a, b FileInfo) bool { return os.SameFile(a, b) }
func Chmod(name string, m FileMode) error {
	if f, _ := find(name); f != nil {
		return nil
	}
	return os.Chmod(name, m)
}
func MkdirTemp(dir, pattern string) (string, error) {
	if f, p := find(dir); f != nil {
		f.mu.Lock()
		defer f.mu.Unlock()
		f.tmpSeq++
		name := filepath.Join(p, tmpName(pattern, f.tmpSeq))
		f.mkdirAll(name)
		return name, nil
	}
	return os.MkdirTemp(dir, pattern)
}

// ExitCalled is the panic value raised by Exit while ExitPanics(true) is in force
// (log.Crit of an instrumented log package becomes observable instead of killing
// the test process).
type ExitCalled struct{ Code int }

func (e ExitCalled) Error() string { return fmt.Sprintf("os.Exit(%d) called (log.Crit)", e.Code) }

var exitPanics atomic.Bool

// ExitPanics switches Exit between terminating the process and panicking.
func ExitPanics(on bool) { exitPanics.Store(on) }

// ---------------------------------------------------------------------------
// the virtual file system

// Kind of a recorded event.
type Kind uint8

const (
	EvCreate    Kind = iota + 1 // Name, Ino: a new directory entry for a new, empty inode
	EvWrite                     // Ino, Off, Data (Atomic: single-sector rewrite, old-or-new)
	EvTrunc                     // Ino, Size
	EvSync                      // Ino: fsync of a file
	EvRemove                    // Name
	EvRename                    // Name -> Name2 (file or directory)
	EvRemoveAll                 // Name (directory tree or file)
	EvSyncDir                   // Name: fsync of a directory
)

func (k Kind) String() string {
	switch k {
	case EvCreate:
		return "create"
	case EvWrite:
		return "write"
	case EvTrunc:
		return "trunc"
	case EvSync:
		return "sync"
	case EvRemove:
		return "remove"
	case EvRename:
		return "rename"
	case EvRemoveAll:
		return "removeall"
	case EvSyncDir:
		return "syncdir"
	}
	return "?"
}

// Event is one entry of the global event log. Names are relative to the FS root.
type Event struct {
	Kind   Kind
	Ino    int
	Name   string
	Name2  string
	Off    int64
	Size   int64
	Data   []byte
	Atomic bool
}

func (e Event) String() string {
	switch e.Kind {
	case EvCreate:
		return fmt.Sprintf("create %s (ino %d)", e.Name, e.Ino)
	case EvWrite:
		a := ""
		if e.Atomic {
			a = " atomic"
		}
		return fmt.Sprintf("write %s off=%d len=%d%s", e.Name, e.Off, len(e.Data), a)
	case EvTrunc:
		return fmt.Sprintf("trunc %s size=%d", e.Name, e.Size)
	case EvSync:
		return fmt.Sprintf("sync %s", e.Name)
	case EvRename:
		return fmt.Sprintf("rename %s -> %s", e.Name, e.Name2)
	}
	return fmt.Sprintf("%s %s", e.Kind, e.Name)
}

type inode struct {
	id   int
	data []byte
}

// FS is one virtual file system (one simulated disk).
type FS struct {
	id   string
	root string

	mu     sync.Mutex
	names  map[string]*inode // absolute cleaned path -> inode
	dirs   map[string]bool
	log    []Event
	nextID int
	tmpSeq int

	atomicFile func(rel string) bool // files whose small rewrites are atomic (old-or-new)
	mergeBurst bool                  // consecutive writes of one rewrite form a single atomic event

	locks map[string]int // vflock state: path -> -1 exclusive, n>0 shared holders

	initial []initEnt // files present (and durable) when the FS was materialised from a crash image
}

type initEnt struct {
	name string
	ino  int
	data []byte
}

var (
	registry sync.Map // id -> *FS
	fsSeq    atomic.Int64
)

// New creates and registers an empty virtual file system and returns it. Its
// root directory is fs.Root() (= Prefix + id).
func New() *FS {
	id := strconv.FormatInt(fsSeq.Add(1), 10)
	f := &FS{id: id, root: Prefix + id, names: map[string]*inode{}, dirs: map[string]bool{}, locks: map[string]int{}, mergeBurst: true}
	f.dirs[f.root] = true
	registry.Store(id, f)
	return f
}

// Release unregisters the file system (its paths stop resolving).
func (f *FS) Release() { registry.Delete(f.id) }

// Root is the absolute path of the root directory of this FS.
func (f *FS) Root() string { return f.root }

// SetAtomic declares which files (path relative to the root) are single-sector
// files whose in-place rewrite is atomic: after a crash such a write is either
// completely present or completely absent. With merge=true the consecutive
// write calls of one rewrite burst (e.g. rlp.Encode emitting header and payload
// as two writes) are one event; with merge=false every write call is its own
// (atomic) event and a crash can fall between them.
func (f *FS) SetAtomic(pred func(rel string) bool, merge bool) {
	f.mu.Lock()
	f.atomicFile = pred
	f.mergeBurst = merge
	f.mu.Unlock()
}

// NumEvents returns the current length of the event log.
func (f *FS) NumEvents() int {
	f.mu.Lock()
	defer f.mu.Unlock()
	return len(f.log)
}

// Events returns a copy of the event log.
func (f *FS) Events() []Event {
	f.mu.Lock()
	defer f.mu.Unlock()
	return append([]Event(nil), f.log...)
}

func (f *FS) rel(p string) string {
	if p == f.root {
		return "."
	}
	return strings.TrimPrefix(p, f.root+"/")
}

// find resolves a path to its FS (nil: not virtual) and the cleaned absolute path.
func find(name string) (*FS, string) {
	if !strings.HasPrefix(name, Prefix) {
		return nil, name
	}
	p := filepath.Clean(name)
	rest := p[len(Prefix):]
	id := rest
	if i := strings.IndexByte(rest, '/'); i >= 0 {
		id = rest[:i]
	}
	v, ok := registry.Load(id)
	if !ok {
		return nil, name
	}
	return v.(*FS), p
}

// Lookup returns the virtual FS a path belongs to, or nil.
func Lookup(name string) *FS {
	f, _ := find(name)
	return f
}

func (f *FS) mkdirAll(p string) {
	for len(p) >= len(f.root) {
		f.dirs[p] = true
		if p == f.root {
			break
		}
		p = filepath.Dir(p)
	}
}

func (f *FS) record(e Event) {
	f.log = append(f.log, e)
}

func notExist(op, path string) error {
	return &PathError{Op: op, Path: path, Err: ErrNotExist}
}

// ---- package-level functions -------------------------------------------------

func MkdirAll(path string, perm FileMode) error {
	f, p := find(path)
	if f == nil {
		return os.MkdirAll(path, perm)
	}
	f.mu.Lock()
	defer f.mu.Unlock()
	if _, ok := f.names[p]; ok {
		return &PathError{Op: "mkdir", Path: path, Err: errors.New("not a directory")}
	}
	f.mkdirAll(p)
	return nil
}

func Mkdir(path string, perm FileMode) error {
	f, p := find(path)
	if f == nil {
		return os.Mkdir(path, perm)
	}
	f.mu.Lock()
	defer f.mu.Unlock()
	if f.dirs[p] || f.names[p] != nil {
		return &PathError{Op: "mkdir", Path: path, Err: ErrExist}
	}
	if !f.dirs[filepath.Dir(p)] {
		return notExist("mkdir", path)
	}
	f.dirs[p] = true
	return nil
}

type fileInfo struct {
	name string
	size int64
	dir  bool
}

func (i fileInfo) Name() string { return i.name }
func (i fileInfo) Size() int64  { return i.size }
func (i fileInfo) Mode() FileMode {
	if i.dir {
		return ModeDir | 0o755
	}
	return 0o644
}
func (i fileInfo) ModTime() time.Time { return time.Time{} }
func (i fileInfo) IsDir() bool        { return i.dir }
func (i fileInfo) Sys() any           { return nil }

func Stat(name string) (FileInfo, error) {
	f, p := find(name)
	if f == nil {
		return os.Stat(name)
	}
	f.mu.Lock()
	defer f.mu.Unlock()
	if ino, ok := f.names[p]; ok {
		return fileInfo{name: filepath.Base(p), size: int64(len(ino.data))}, nil
	}
	if f.dirs[p] {
		return fileInfo{name: filepath.Base(p), dir: true}, nil
	}
	return nil, notExist("stat", name)
}

func Lstat(name string) (FileInfo, error) {
	if f, _ := find(name); f == nil {
		return os.Lstat(name)
	}
	return Stat(name)
}

func Remove(name string) error {
	f, p := find(name)
	if f == nil {
		return os.Remove(name)
	}
	f.mu.Lock()
	defer f.mu.Unlock()
	if _, ok := f.names[p]; ok {
		delete(f.names, p)
		f.record(Event{Kind: EvRemove, Name: f.rel(p)})
		return nil
	}
	if f.dirs[p] {
		for n := range f.names {
			if strings.HasPrefix(n, p+"/") {
				return &PathError{Op: "remove", Path: name, Err: errors.New("directory not empty")}
			}
		}
		for d := range f.dirs {
			if strings.HasPrefix(d, p+"/") {
				return &PathError{Op: "remove", Path: name, Err: errors.New("directory not empty")}
			}
		}
		delete(f.dirs, p)
		return nil
	}
	return notExist("remove", name)
}

func RemoveAll(name string) error {
	f, p := find(name)
	if f == nil {
		return os.RemoveAll(name)
	}
	f.mu.Lock()
	defer f.mu.Unlock()
	hit := false
	for n := range f.names {
		if n == p || strings.HasPrefix(n, p+"/") {
			delete(f.names, n)
			hit = true
		}
	}
	for d := range f.dirs {
		if d == p || strings.HasPrefix(d, p+"/") {
			delete(f.dirs, d)
		}
	}
	if hit {
		f.record(Event{Kind: EvRemoveAll, Name: f.rel(p)})
	}
	return nil
}

func Rename(oldpath, newpath string) error {
	f, po := find(oldpath)
	f2, pn := find(newpath)
	if f == nil && f2 == nil {
		return os.Rename(oldpath, newpath)
	}
	if f != f2 {
		return &LinkError{Op: "rename", Old: oldpath, New: newpath, Err: errors.New("cross-device link")}
	}
	f.mu.Lock()
	defer f.mu.Unlock()
	if ino, ok := f.names[po]; ok {
		if f.dirs[pn] {
			return &LinkError{Op: "rename", Old: oldpath, New: newpath, Err: errors.New("file exists")}
		}
		delete(f.names, po)
		f.names[pn] = ino
		f.record(Event{Kind: EvRename, Name: f.rel(po), Name2: f.rel(pn)})
		return nil
	}
	if f.dirs[po] {
		if _, ok := f.names[pn]; ok {
			return &LinkError{Op: "rename", Old: oldpath, New: newpath, Err: errors.New("not a directory")}
		}
		for n := range f.names {
			if strings.HasPrefix(n, pn+"/") {
				return &LinkError{Op: "rename", Old: oldpath, New: newpath, Err: errors.New("directory not empty")}
			}
		}
		moved := map[string]*inode{}
		for n, ino := range f.names {
			if strings.HasPrefix(n, po+"/") {
				moved[pn+n[len(po):]] = ino
				delete(f.names, n)
			}
		}
		for n, ino := range moved {
			f.names[n] = ino
		}
		var ds []string
		for d := range f.dirs {
			if d == po || strings.HasPrefix(d, po+"/") {
				ds = append(ds, d)
			}
		}
		for _, d := range ds {
			delete(f.dirs, d)
			f.dirs[pn+d[len(po):]] = true
		}
		f.mkdirAll(pn)
		f.record(Event{Kind: EvRename, Name: f.rel(po), Name2: f.rel(pn)})
		return nil
	}
	return &LinkError{Op: "rename", Old: oldpath, New: newpath, Err: ErrNotExist}
}

func Open(name string) (*File, error) { return OpenFile(name, O_RDONLY, 0) }

func Create(name string) (*File, error) {
	return OpenFile(name, O_RDWR|O_CREATE|O_TRUNC, 0o666)
}

func OpenFile(name string, flag int, perm FileMode) (*File, error) {
	f, p := find(name)
	if f == nil {
		rf, err := os.OpenFile(name, flag, perm)
		if err != nil {
			return nil, err
		}
		return &File{real: rf}, nil
	}
	f.mu.Lock()
	defer f.mu.Unlock()
	return f.open(name, p, flag)
}

func (f *FS) open(name, p string, flag int) (*File, error) {
	if f.dirs[p] {
		if flag&(O_WRONLY|O_RDWR) != 0 {
			return nil, &PathError{Op: "open", Path: name, Err: errors.New("is a directory")}
		}
		return &File{fs: f, name: name, path: p, dir: true}, nil
	}
	ino, ok := f.names[p]
	if ok && flag&O_CREATE != 0 && flag&O_EXCL != 0 {
		return nil, &PathError{Op: "open", Path: name, Err: ErrExist}
	}
	if !ok {
		if flag&O_CREATE == 0 {
			return nil, notExist("open", name)
		}
		if !f.dirs[filepath.Dir(p)] {
			return nil, notExist("open", name)
		}
		f.nextID++
		ino = &inode{id: f.nextID}
		f.names[p] = ino
		f.record(Event{Kind: EvCreate, Name: f.rel(p), Ino: ino.id})
	} else if flag&O_TRUNC != 0 && flag&(O_WRONLY|O_RDWR) != 0 && len(ino.data) > 0 {
		ino.data = nil
		f.record(Event{Kind: EvTrunc, Name: f.rel(p), Ino: ino.id, Size: 0})
	}
	return &File{fs: f, name: name, path: p, ino: ino, flag: flag}, nil
}

func tmpName(pattern string, seq int) string {
	r := fmt.Sprintf("vt%06d", seq)
	if i := strings.LastIndexByte(pattern, '*'); i >= 0 {
		return pattern[:i] + r + pattern[i+1:]
	}
	return pattern + r
}

func CreateTemp(dir, pattern string) (*File, error) {
	f, p := find(dir)
	if f == nil {
		rf, err := os.CreateTemp(dir, pattern)
		if err != nil {
			return nil, err
		}
		return &File{real: rf}, nil
	}
	f.mu.Lock()
	defer f.mu.Unlock()
	if !f.dirs[p] {
		return nil, notExist("createtemp", dir)
	}
	for {
		f.tmpSeq++
		name := filepath.Join(p, tmpName(pattern, f.tmpSeq))
		if _, ok := f.names[name]; ok {
			continue
		}
		return f.open(name, name, O_RDWR|O_CREATE|O_EXCL)
	}
}

func ReadFile(name string) ([]byte, error) {
	f, p := find(name)
	if f == nil {
		return os.ReadFile(name)
	}
	f.mu.Lock()
	defer f.mu.Unlock()
	ino, ok := f.names[p]
	if !ok {
		return nil, notExist("open", name)
	}
	return append([]byte{}, ino.data...), nil
}

func WriteFile(name string, data []byte, perm FileMode) error {
	if f, _ := find(name); f == nil {
		return os.WriteFile(name, data, perm)
	}
	fl, err := OpenFile(name, O_WRONLY|O_CREATE|O_TRUNC, perm)
	if err != nil {
		return err
	}
	_, err = fl.Write(data)
	if e := fl.Close(); err == nil {
		err = e
	}
	return err
}

func Truncate(name string, size int64) error {
	if f, _ := find(name); f == nil {
		return os.Truncate(name, size)
	}
	fl, err := OpenFile(name, O_WRONLY, 0)
	if err != nil {
		return err
	}
	defer fl.Close()
	return fl.Truncate(size)
}

type dirEntry struct{ fileInfo }

func (d dirEntry) Type() FileMode          { return d.Mode().Type() }
func (d dirEntry) Info() (FileInfo, error) { return d.fileInfo, nil }

func (f *FS) list(p string) []fileInfo {
	seen := map[string]fileInfo{}
	for n, ino := range f.names {
		if filepath.Dir(n) == p {
			seen[n] = fileInfo{name: filepath.Base(n), size: int64(len(ino.data))}
		}
	}
	for d := range f.dirs {
		if d != p && filepath.Dir(d) == p {
			seen[d] = fileInfo{name: filepath.Base(d), dir: true}
		}
	}
	var out []fileInfo
	for _, v := range seen {
		out = append(out, v)
	}
	sort.Slice(out, func(i, j int) bool { return out[i].name < out[j].name })
	return out
}

func ReadDir(name string) ([]DirEntry, error) {
	f, p := find(name)
	if f == nil {
		return os.ReadDir(name)
	}
	f.mu.Lock()
	defer f.mu.Unlock()
	if !f.dirs[p] {
		return nil, notExist("open", name)
	}
	var out []DirEntry
	for _, fi := range f.list(p) {
		out = append(out, dirEntry{fi})
	}
	return out, nil
}

// ---------------------------------------------------------------------------
// File

// File is the stand-in for os.File: either a handle into a virtual FS or a thin
// wrapper around a real *os.File (paths outside Prefix).
type File struct {
	real *os.File

	fs     *FS
	name   string // as given by the caller
	path   string // cleaned absolute
	ino    *inode
	flag   int
	pos    int64
	dir    bool
	closed bool
}

// NewFile wraps a real file descriptor (os.NewFile).
func NewFile(fd uintptr, name string) *File {
	rf := os.NewFile(fd, name)
	if rf == nil {
		return nil
	}
	return &File{real: rf}
}

// Real returns the underlying real file (nil for virtual files).
func (fl *File) Real() *os.File { return fl.real }

func (fl *File) Name() string {
	if fl.real != nil {
		return fl.real.Name()
	}
	return fl.name
}

func (fl *File) Fd() uintptr {
	if fl.real != nil {
		return fl.real.Fd()
	}
	return ^uintptr(0)
}

func (fl *File) chk(op string) error {
	if fl == nil {
		return ErrInvalid
	}
	if fl.closed {
		return &PathError{Op: op, Path: fl.name, Err: ErrClosed}
	}
	return nil
}

func (fl *File) writable() bool { return fl.flag&(O_WRONLY|O_RDWR) != 0 }
func (fl *File) readable() bool { return fl.flag&O_WRONLY == 0 }

func (fl *File) Close() error {
	if fl == nil {
		return ErrInvalid
	}
	if fl.real != nil {
		return fl.real.Close()
	}
	fl.fs.mu.Lock()
	defer fl.fs.mu.Unlock()
	if fl.closed {
		return &PathError{Op: "close", Path: fl.name, Err: ErrClosed}
	}
	fl.closed = true
	return nil
}

func (fl *File) Stat() (FileInfo, error) {
	if fl.real != nil {
		return fl.real.Stat()
	}
	fl.fs.mu.Lock()
	defer fl.fs.mu.Unlock()
	if err := fl.chk("stat"); err != nil {
		return nil, err
	}
	if fl.dir {
		return fileInfo{name: filepath.Base(fl.path), dir: true}, nil
	}
	return fileInfo{name: filepath.Base(fl.path), size: int64(len(fl.ino.data))}, nil
}

func (fl *File) Read(b []byte) (int, error) {
	if fl.real != nil {
		return fl.real.Read(b)
	}
	fl.fs.mu.Lock()
	defer fl.fs.mu.Unlock()
	if err := fl.chk("read"); err != nil {
		return 0, err
	}
	if fl.dir || !fl.readable() {
		return 0, &PathError{Op: "read", Path: fl.name, Err: errors.New("bad file descriptor")}
	}
	if len(b) == 0 {
		return 0, nil
	}
	if fl.pos >= int64(len(fl.ino.data)) {
		return 0, io.EOF
	}
	n := copy(b, fl.ino.data[fl.pos:])
	fl.pos += int64(n)
	return n, nil
}

func (fl *File) ReadAt(b []byte, off int64) (int, error) {
	if fl.real != nil {
		return fl.real.ReadAt(b, off)
	}
	fl.fs.mu.Lock()
	defer fl.fs.mu.Unlock()
	if err := fl.chk("read"); err != nil {
		return 0, err
	}
	if fl.dir || !fl.readable() {
		return 0, &PathError{Op: "read", Path: fl.name, Err: errors.New("bad file descriptor")}
	}
	if off < 0 {
		return 0, &PathError{Op: "readat", Path: fl.name, Err: errors.New("negative offset")}
	}
	if off >= int64(len(fl.ino.data)) {
		if len(b) == 0 {
			return 0, nil
		}
		return 0, io.EOF
	}
	n := copy(b, fl.ino.data[off:])
	if n < len(b) {
		return n, io.EOF
	}
	return n, nil
}

func (fl *File) writeAt(b []byte, off int64) {
	ino := fl.ino
	end := off + int64(len(b))
	if end > int64(len(ino.data)) {
		nd := make([]byte, end)
		copy(nd, ino.data)
		ino.data = nd
	}
	copy(ino.data[off:], b)
	f := fl.fs
	rel := f.rel(fl.path)
	atomicW := f.atomicFile != nil && f.atomicFile(rel)
	if atomicW && f.mergeBurst && len(f.log) > 0 {
		last := &f.log[len(f.log)-1]
		if last.Kind == EvWrite && last.Atomic && last.Ino == ino.id && last.Off+int64(len(last.Data)) == off {
			last.Data = append(last.Data, b...)
			return
		}
	}
	f.record(Event{Kind: EvWrite, Name: rel, Ino: ino.id, Off: off, Data: append([]byte{}, b...), Atomic: atomicW})
}

func (fl *File) Write(b []byte) (int, error) {
	if fl.real != nil {
		return fl.real.Write(b)
	}
	fl.fs.mu.Lock()
	defer fl.fs.mu.Unlock()
	if err := fl.chk("write"); err != nil {
		return 0, err
	}
	if fl.dir || !fl.writable() {
		return 0, &PathError{Op: "write", Path: fl.name, Err: errors.New("bad file descriptor")}
	}
	if len(b) == 0 {
		return 0, nil
	}
	if fl.flag&O_APPEND != 0 {
		fl.pos = int64(len(fl.ino.data))
	}
	fl.writeAt(b, fl.pos)
	fl.pos += int64(len(b))
	return len(b), nil
}

func (fl *File) WriteString(s string) (int, error) { return fl.Write([]byte(s)) }

func (fl *File) WriteAt(b []byte, off int64) (int, error) {
	if fl.real != nil {
		return fl.real.WriteAt(b, off)
	}
	fl.fs.mu.Lock()
	defer fl.fs.mu.Unlock()
	if err := fl.chk("write"); err != nil {
		return 0, err
	}
	if fl.dir || !fl.writable() {
		return 0, &PathError{Op: "write", Path: fl.name, Err: errors.New("bad file descriptor")}
	}
	if len(b) == 0 {
		return 0, nil
	}
	fl.writeAt(b, off)
	return len(b), nil
}

func (fl *File) Seek(offset int64, whence int) (int64, error) {
	if fl.real != nil {
		return fl.real.Seek(offset, whence)
	}
	fl.fs.mu.Lock()
	defer fl.fs.mu.Unlock()
	if err := fl.chk("seek"); err != nil {
		return 0, err
	}
	var base int64
	switch whence {
	case io.SeekStart:
	case io.SeekCurrent:
		base = fl.pos
	case io.SeekEnd:
		if !fl.dir {
			base = int64(len(fl.ino.data))
		}
	default:
		return 0, &PathError{Op: "seek", Path: fl.name, Err: ErrInvalid}
	}
	if base+offset < 0 {
		return 0, &PathError{Op: "seek", Path: fl.name, Err: ErrInvalid}
	}
	fl.pos = base + offset
	return fl.pos, nil
}

func (fl *File) Truncate(size int64) error {
	if fl.real != nil {
		return fl.real.Truncate(size)
	}
	fl.fs.mu.Lock()
	defer fl.fs.mu.Unlock()
	if err := fl.chk("truncate"); err != nil {
		return err
	}
	if fl.dir || !fl.writable() || size < 0 {
		return &PathError{Op: "truncate", Path: fl.name, Err: ErrInvalid}
	}
	ino := fl.ino
	if size == int64(len(ino.data)) {
		return nil
	}
	if size < int64(len(ino.data)) {
		ino.data = append([]byte{}, ino.data[:size]...)
	} else {
		nd := make([]byte, size)
		copy(nd, ino.data)
		ino.data = nd
	}
	fl.fs.record(Event{Kind: EvTrunc, Name: fl.fs.rel(fl.path), Ino: ino.id, Size: size})
	return nil
}

func (fl *File) Sync() error {
	if fl.real != nil {
		return fl.real.Sync()
	}
	fl.fs.mu.Lock()
	defer fl.fs.mu.Unlock()
	if err := fl.chk("sync"); err != nil {
		return err
	}
	if fl.dir {
		fl.fs.record(Event{Kind: EvSyncDir, Name: fl.fs.rel(fl.path)})
		return nil
	}
	fl.fs.record(Event{Kind: EvSync, Name: fl.fs.rel(fl.path), Ino: fl.ino.id})
	return nil
}

func (fl *File) Chmod(m FileMode) error {
	if fl.real != nil {
		return fl.real.Chmod(m)
	}
	return nil
}

func (fl *File) Readdirnames(n int) ([]string, error) {
	if fl.real != nil {
		return fl.real.Readdirnames(n)
	}
	fl.fs.mu.Lock()
	defer fl.fs.mu.Unlock()
	if err := fl.chk("readdir"); err != nil {
		return nil, err
	}
	if !fl.dir {
		return nil, &PathError{Op: "readdir", Path: fl.name, Err: errors.New("not a directory")}
	}
	var out []string
	for _, fi := range fl.fs.list(fl.path) {
		out = append(out, fi.name)
	}
	return out, nil
}

func (fl *File) Readdir(n int) ([]FileInfo, error) {
	if fl.real != nil {
		return fl.real.Readdir(n)
	}
	fl.fs.mu.Lock()
	defer fl.fs.mu.Unlock()
	if err := fl.chk("readdir"); err != nil {
		return nil, err
	}
	if !fl.dir {
		return nil, &PathError{Op: "readdir", Path: fl.name, Err: errors.New("not a directory")}
	}
	var out []FileInfo
	for _, fi := range fl.fs.list(fl.path) {
		out = append(out, fi)
	}
	return out, nil
}

func (fl *File) ReadDir(n int) ([]DirEntry, error) {
	if fl.real != nil {
		return fl.real.ReadDir(n)
	}
	fis, err := fl.Readdir(n)
	if err != nil {
		return nil, err
	}
	var out []DirEntry
	for _, fi := range fis {
		out = append(out, dirEntry{fi.(fileInfo)})
	}
	return out, nil
}

var _ fs.FileInfo = fileInfo{}

// ---------------------------------------------------------------------------
// advisory locks (used by the vflock shim)

// TryLock tries to take the advisory lock on path; it is released by Unlock or
// implicitly by materialising a crash image (a new FS holds no locks).
func (f *FS) TryLock(path string, exclusive bool) bool {
	f.mu.Lock()
	defer f.mu.Unlock()
	p := filepath.Clean(path)
	cur := f.locks[p]
	if exclusive {
		if cur != 0 {
			return false
		}
		f.locks[p] = -1
		return true
	}
	if cur < 0 {
		return false
	}
	f.locks[p] = cur + 1
	return true
}

// Unlock releases a lock taken with TryLock.
func (f *FS) Unlock(path string, exclusive bool) {
	f.mu.Lock()
	defer f.mu.Unlock()
	p := filepath.Clean(path)
	if exclusive {
		if f.locks[p] < 0 {
			delete(f.locks, p)
		}
		return
	}
	if f.locks[p] > 0 {
		f.locks[p]--
		if f.locks[p] == 0 {
			delete(f.locks, p)
		}
	}
}

// ---------------------------------------------------------------------------
// inspection helpers for harnesses

// Files returns relative name -> content of every file (copy).
func (f *FS) Files() map[string][]byte {
	f.mu.Lock()
	defer f.mu.Unlock()
	out := map[string][]byte{}
	for n, ino := range f.names {
		out[f.rel(n)] = append([]byte{}, ino.data...)
	}
	return out
}

// Fingerprint is a canonical string of the complete content of the FS.
func (f *FS) Fingerprint() string {
	files := f.Files()
	names := make([]string, 0, len(files))
	for n := range files {
		names = append(names, n)
	}
	sort.Strings(names)
	var sb strings.Builder
	for _, n := range names {
		fmt.Fprintf(&sb, "%s=%x;", n, files[n])
	}
	return sb.String()
}

// Dump is a human readable listing (for violation reports).
func (f *FS) Dump() string {
	files := f.Files()
	names := make([]string, 0, len(files))
	for n := range files {
		names = append(names, n)
	}
	sort.Strings(names)
	var sb strings.Builder
	for _, n := range names {
		fmt.Fprintf(&sb, "  %s [%d] %x\n", n, len(files[n]), files[n])
	}
	return sb.String()
}
