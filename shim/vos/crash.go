package vos

import (
	"fmt"
	"path/filepath"
	"sort"
	"strings"
)

// Crash model (engine E3 "crashx", DESIGN.md §2.4).
//
// The recorded run is cut after its first K events ("the process stops / the
// power fails here"). What the disk then holds is described by a *loss pattern*:
//
// File data. For every inode: S = its content at its last fsync (empty if never
// synced), o1..on = its writes/truncates since then. Admissible contents are
//   - S with o1..oj applied, for every j (j=0: everything unsynced is lost,
//     j=n: everything kept; an unsynced truncate may be lost);
//   - for a run of appending writes o(j+1)..om (each starts at the then end of
//     file) with B = size before and C = size after the run: the full content cut
//     at any length R, B<=R<=C, optionally followed by a zero-filled extension up
//     to any length L, R<=L<=C ("unsynced data may be lost or left as a zero-filled
//     extension"). Reduced mode keeps L == R (pure cut at every byte) and, when R is
//     the start of an unsynced write, L == C (everything after it zero-filled).
//   - a write flagged Atomic (small in-place rewrite of a single-sector file, see
//     FS.SetAtomic) is either completely applied or not at all: no partial images.
//   - a non-appending write to a non-atomic file is applied as a whole (prefix
//     semantics); the freezer never issues one.
//
// Namespace. create/remove/rename are ordered and become durable at the next
// fsync of any file or directory of this FS (journalled-metadata behaviour, e.g.
// ext4 ordered mode); a crash keeps any prefix of the namespace operations issued
// after that barrier. rename is atomic. Directories themselves are durable.
//
// Files are independent of each other: every combination of per-inode images
// and namespace prefix is an admissible disk state.

// Image is one admissible post-crash content of an inode.
type Image struct {
	Label string
	Data  []byte
}

type inoState struct {
	synced     []byte
	everSynced bool
	ops        []Event
	cur        []byte
	name       string // last known name (diagnostics)
}

// CrashPoint is the analysis of the first K events of an event log.
type CrashPoint struct {
	K       int
	Pending []Event // namespace operations since the last fsync barrier
	base    map[string]int
	inodes  map[int]*inoState
	dirs    []string
	policy  func(string) bool
	merge   bool
	full    bool
	noTorn  bool
	imgs    map[int][]Image
}

// SetNoTorn restricts the per-file images to whole-operation prefixes (no torn
// appends). Must be called before Images/Patterns.
func (cp *CrashPoint) SetNoTorn(v bool) { cp.noTorn = v; cp.imgs = map[int][]Image{} }

// CrashAt analyses the state of the disk after the first k events. full selects
// the complete (R,L) grid for torn appends, otherwise L is restricted to {R, C}.
func (f *FS) CrashAt(k int, full bool) *CrashPoint {
	f.mu.Lock()
	defer f.mu.Unlock()
	if k > len(f.log) {
		k = len(f.log)
	}
	cp := &CrashPoint{K: k, base: map[string]int{}, inodes: map[int]*inoState{}, policy: f.atomicFile, merge: f.mergeBurst, full: full, imgs: map[int][]Image{}}
	for d := range f.dirs {
		cp.dirs = append(cp.dirs, f.rel(d))
	}
	sort.Strings(cp.dirs)
	cur := map[string]int{}
	for _, ie := range f.initial {
		cp.inodes[ie.ino] = &inoState{name: ie.name, synced: ie.data, everSynced: true, cur: ie.data}
		cur[ie.name] = ie.ino
		cp.base[ie.name] = ie.ino
	}
	barrier := func() {
		cp.base = make(map[string]int, len(cur))
		for n, i := range cur {
			cp.base[n] = i
		}
		cp.Pending = nil
	}
	for _, e := range f.log[:k] {
		switch e.Kind {
		case EvCreate:
			cp.inodes[e.Ino] = &inoState{name: e.Name}
			applyNS(cur, e)
			cp.Pending = append(cp.Pending, e)
		case EvWrite, EvTrunc:
			st := cp.inodes[e.Ino]
			st.cur = applyData(st.cur, e)
			st.ops = append(st.ops, e)
		case EvSync:
			st := cp.inodes[e.Ino]
			st.synced = append([]byte{}, st.cur...)
			st.everSynced = true
			st.ops = nil
			barrier()
		case EvRemove, EvRename, EvRemoveAll:
			applyNS(cur, e)
			cp.Pending = append(cp.Pending, e)
		case EvSyncDir:
			barrier()
		}
	}
	return cp
}

func applyData(c []byte, e Event) []byte {
	switch e.Kind {
	case EvWrite:
		end := e.Off + int64(len(e.Data))
		if end > int64(len(c)) {
			nc := make([]byte, end)
			copy(nc, c)
			c = nc
		} else {
			c = append([]byte{}, c...)
		}
		copy(c[e.Off:], e.Data)
		return c
	case EvTrunc:
		if e.Size <= int64(len(c)) {
			return append([]byte{}, c[:e.Size]...)
		}
		nc := make([]byte, e.Size)
		copy(nc, c)
		return nc
	}
	return c
}

func applyNS(m map[string]int, e Event) {
	switch e.Kind {
	case EvCreate:
		m[e.Name] = e.Ino
	case EvRemove:
		delete(m, e.Name)
	case EvRemoveAll:
		for n := range m {
			if n == e.Name || strings.HasPrefix(n, e.Name+"/") {
				delete(m, n)
			}
		}
	case EvRename:
		if ino, ok := m[e.Name]; ok {
			delete(m, e.Name)
			m[e.Name2] = ino
			return
		}
		moved := map[string]int{}
		for n, ino := range m {
			if strings.HasPrefix(n, e.Name+"/") {
				moved[e.Name2+n[len(e.Name):]] = ino
				delete(m, n)
			}
		}
		for n, ino := range moved {
			m[n] = ino
		}
	}
}

// Namespace returns name -> inode after keeping the first p pending namespace
// operations (0 <= p <= len(Pending)).
func (cp *CrashPoint) Namespace(p int) map[string]int {
	m := make(map[string]int, len(cp.base))
	for n, i := range cp.base {
		m[n] = i
	}
	for _, e := range cp.Pending[:p] {
		applyNS(m, e)
	}
	return m
}

// Images lists the admissible contents of an inode; index 0 is "kept" (nothing
// lost). LostIndex gives the index of "everything unsynced lost".
func (cp *CrashPoint) Images(ino int) []Image {
	if im, ok := cp.imgs[ino]; ok {
		return im
	}
	st := cp.inodes[ino]
	n := len(st.ops)
	states := make([][]byte, n+1)
	states[0] = append([]byte{}, st.synced...)
	for j, e := range st.ops {
		states[j+1] = applyData(states[j], e)
	}
	var out []Image
	seen := map[string]bool{}
	add := func(label string, d []byte) {
		if seen[string(d)] {
			return
		}
		seen[string(d)] = true
		out = append(out, Image{Label: label, Data: d})
	}
	add("kept", states[n])
	add("lost", states[0])
	for j := 1; j < n; j++ {
		add(fmt.Sprintf("ops=%d/%d", j, n), states[j])
	}
	isAppend := func(j int) bool {
		e := st.ops[j]
		return e.Kind == EvWrite && !e.Atomic && e.Off == int64(len(states[j]))
	}
	for j := 0; j < n && !cp.noTorn; j++ {
		if !isAppend(j) || (j > 0 && isAppend(j-1)) {
			continue
		}
		m := j
		for m < n && isAppend(m) {
			m++
		}
		B, C := len(states[j]), len(states[m])
		fullc := states[m]
		boundary := map[int]bool{}
		for x := j; x <= m; x++ {
			boundary[len(states[x])] = true
		}
		for R := B; R <= C; R++ {
			for L := R; L <= C; L++ {
				// reduced mode: pure cuts at every byte; zero-filled extension only up to the
				// written end and only when the real data ends at a write boundary
				if !cp.full && L != R && !(L == C && boundary[R]) {
					continue
				}
				d := make([]byte, L)
				copy(d, fullc[:R])
				lbl := fmt.Sprintf("ops=%d/%d+cut@%d", j, n, R)
				if L > R {
					lbl += fmt.Sprintf("+zero..%d", L)
				}
				add(lbl, d)
			}
		}
	}
	cp.imgs[ino] = out
	return out
}

// LostIndex is the index in Images(ino) of the "everything unsynced lost" image.
func (cp *CrashPoint) LostIndex(ino int) int {
	im := cp.Images(ino)
	for i, x := range im {
		if x.Label == "lost" {
			return i
		}
	}
	return 0 // identical to "kept"
}

// Pattern is one loss pattern: the number of pending namespace operations kept and
// the chosen image per file (by label; files not listed are "kept").
type Pattern struct {
	NS   int               `json:"ns"`
	Pick map[string]string `json:"pick,omitempty"`
	pick map[int]int
}

// EnumOpt bounds the enumeration of loss patterns.
type EnumOpt struct {
	ProductCap int // enumerate the full product of per-file images when it is <= ProductCap
	MaxDev     int // otherwise: at most MaxDev files deviate from each of the two baselines (all kept / all lost)
}

// Patterns enumerates loss patterns at this crash point in a deterministic order.
// complete reports whether the full product was enumerated for every namespace prefix.
func (cp *CrashPoint) Patterns(opt EnumOpt) (pats []Pattern, complete bool) {
	complete = true
	for p := len(cp.Pending); p >= 0; p-- {
		ns := cp.Namespace(p)
		names := make([]string, 0, len(ns))
		for n := range ns {
			names = append(names, n)
		}
		sort.Strings(names)
		counts := make([]int, len(names))
		product := 1
		for i, n := range names {
			counts[i] = len(cp.Images(ns[n]))
			if product <= opt.ProductCap {
				product *= counts[i]
			}
		}
		mk := func(choice []int) Pattern {
			pt := Pattern{NS: p, Pick: map[string]string{}, pick: map[int]int{}}
			for i, c := range choice {
				if c != 0 {
					pt.Pick[names[i]] = cp.Images(ns[names[i]])[c].Label
					pt.pick[ns[names[i]]] = c
				}
			}
			return pt
		}
		if product <= opt.ProductCap {
			choice := make([]int, len(names))
			for {
				pats = append(pats, mk(choice))
				i := 0
				for i < len(choice) {
					choice[i]++
					if choice[i] < counts[i] {
						break
					}
					choice[i] = 0
					i++
				}
				if i == len(choice) {
					break
				}
			}
			continue
		}
		complete = false
		kept := make([]int, len(names))
		lost := make([]int, len(names))
		for i, n := range names {
			lost[i] = cp.LostIndex(ns[n])
		}
		seen := map[string]bool{}
		emit := func(choice []int) {
			k := fmt.Sprint(choice)
			if seen[k] {
				return
			}
			seen[k] = true
			pats = append(pats, mk(choice))
		}
		var dev func(base []int, from, left int)
		dev = func(base []int, from, left int) {
			emit(base)
			if left == 0 {
				return
			}
			for i := from; i < len(names); i++ {
				orig := base[i]
				for c := 0; c < counts[i]; c++ {
					if c == orig {
						continue
					}
					base[i] = c
					dev(base, i+1, left-1)
				}
				base[i] = orig
			}
		}
		dev(append([]int{}, kept...), 0, opt.MaxDev)
		dev(append([]int{}, lost...), 0, opt.MaxDev)
	}
	return pats, complete
}

// Build materialises the disk image of a loss pattern as a fresh, registered FS
// (with an empty event log and no locks held).
func (cp *CrashPoint) Build(pt Pattern) *FS {
	nf := New()
	nf.atomicFile = cp.policy
	nf.mergeBurst = cp.merge
	for _, d := range cp.dirs {
		if d == "." {
			continue
		}
		nf.mkdirAll(filepath.Join(nf.root, d))
	}
	ns := cp.Namespace(pt.NS)
	names := make([]string, 0, len(ns))
	for n := range ns {
		names = append(names, n)
	}
	sort.Strings(names)
	for _, n := range names {
		ino := ns[n]
		idx := 0
		if pt.pick != nil {
			idx = pt.pick[ino]
		} else if lbl, ok := pt.Pick[n]; ok {
			for i, im := range cp.Images(ino) {
				if im.Label == lbl {
					idx = i
				}
			}
		}
		p := filepath.Join(nf.root, n)
		nf.mkdirAll(filepath.Dir(p))
		nf.nextID++
		data := cp.Images(ino)[idx].Data
		nf.names[p] = &inode{id: nf.nextID, data: append([]byte{}, data...)}
		nf.initial = append(nf.initial, initEnt{name: n, ino: nf.nextID, data: data})
	}
	return nf
}

// Key is a canonical description of the crash state (durable and volatile content
// of every file, pending namespace operations): equal keys yield equal sets of images.
func (cp *CrashPoint) Key() string {
	var sb strings.Builder
	names := make([]string, 0, len(cp.base))
	for n := range cp.base {
		names = append(names, n)
	}
	sort.Strings(names)
	inos := map[int]bool{}
	for _, n := range names {
		fmt.Fprintf(&sb, "%s=%d;", n, cp.base[n])
		inos[cp.base[n]] = true
	}
	for _, e := range cp.Pending {
		fmt.Fprintf(&sb, "%d:%s>%s#%d;", e.Kind, e.Name, e.Name2, e.Ino)
		if e.Kind == EvCreate {
			inos[e.Ino] = true
		}
	}
	ids := make([]int, 0, len(inos))
	for i := range inos {
		ids = append(ids, i)
	}
	sort.Ints(ids)
	for _, i := range ids {
		st := cp.inodes[i]
		fmt.Fprintf(&sb, "|%d:%x", i, st.synced)
		for _, e := range st.ops {
			fmt.Fprintf(&sb, ",%d@%d/%d:%x:%v", e.Kind, e.Off, e.Size, e.Data, e.Atomic)
		}
	}
	fmt.Fprintf(&sb, "|full=%v", cp.full)
	return sb.String()
}

// Describe renders the per-file sync state at the crash point (diagnostics).
func (cp *CrashPoint) Describe() string {
	var sb strings.Builder
	ns := cp.Namespace(len(cp.Pending))
	names := make([]string, 0, len(ns))
	for n := range ns {
		names = append(names, n)
	}
	sort.Strings(names)
	for _, n := range names {
		st := cp.inodes[ns[n]]
		fmt.Fprintf(&sb, "  %s synced[%d]=%x cur[%d]=%x unsynced-ops=%d\n", n, len(st.synced), st.synced, len(st.cur), st.cur, len(st.ops))
	}
	for i, e := range cp.Pending {
		fmt.Fprintf(&sb, "  pending-ns[%d] %s\n", i, e)
	}
	return sb.String()
}
